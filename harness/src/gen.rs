//! Grammar-based generator of abstract histories and of the option sets applied to them.
//! One PRNG state per case. The same history renders (a) to an exporter-shaped stream for the
//! stream-level correspondence and (b) to a fast-import stream that builds a real repository.
use crate::rng::Rng;
use std::collections::BTreeMap;

#[derive(Clone, Debug)]
pub enum Change {
    M { mode: &'static str, blob: usize, path: Vec<u8> },
    D { path: Vec<u8> },
}

#[derive(Clone, Debug)]
pub struct Blob {
    pub mark: u32,
    pub content: Vec<u8>,
}

#[derive(Clone, Debug)]
pub struct Commit {
    pub mark: u32,
    pub refname: Vec<u8>,
    pub parents: Vec<usize>,
    pub author: Vec<u8>,    // "Name <email> ts tz"
    pub committer: Vec<u8>,
    pub msg: Vec<u8>,
    pub changes: Vec<Change>,
    pub tree: BTreeMap<Vec<u8>, (&'static str, usize)>,
    pub extra_headers: Vec<Vec<u8>>,
}

#[derive(Clone, Debug)]
pub struct AnnTag {
    pub name: Vec<u8>,
    pub mark: Option<u32>,
    pub target: usize,
    pub tagger: Vec<u8>,
    pub msg: Vec<u8>,
}

#[derive(Clone, Debug, Default)]
pub struct History {
    pub blobs: Vec<Blob>,
    pub commits: Vec<Commit>,
    pub resets: Vec<(Vec<u8>, usize)>, // refs emitted as `reset <ref> / from :N` after the commits
    pub tags: Vec<AnnTag>,
    pub awkward_paths: bool,
}

pub const PATHS: &[&[u8]] = &[
    b"a", b"b", b"keep", b"drop/x", b"drop/y", b"src/a.md", b"src/x/b.md", b"src/main.rs", b"d/f", b"d/g/h",
    b"e/f", b"docs/readme.txt", b"ax", b"x", b"lib/x", b"top.log", b"build/out.log",
];
pub const AWKWARD: &[&[u8]] = &[
    b"sp ace", b"qu\"ote", b"back\\slash", b"caf\xc3\xa9", b"hi\xff", b" lead", b"trail ", b"d/sp ace/f", b"tab\\t",
    b"\"q", b"a\\", b"oct\\101", b"\xe2\x80\x83em", b"x~", b"*star", b"que?",
    // siblings that differ in case only (they collapse when the importer runs with core.ignorecase=true)
    b"A", b"Keep", b"docs/Readme.txt", b"docs/README.TXT", b"SRC/a.md", b"d/F", b"DOCS/b.txt", b"Build/out.LOG", b"README",
];
const MODES: &[&str] = &["100644", "100644", "100644", "100755", "120000"];
const NAMES: &[&[u8]] = &[b"A U Thor", b"J\xc3\xb6rg M", b"Al 17", b"", b"author committer", b"N O'Body"];
const EMAILS: &[&[u8]] = &[b"a@example.com", b"old@example.com", b"a17@e", b"", b"\xc3\xa9@e"];
const TZS: &[&[u8]] = &[b"+0000", b"+0100", b"-0830", b"+0530"];
const MSGS: &[&[u8]] = &[
    b"plain message\n", b"", b"no trailing newline", b"multi\n\nparagraph\n\nmessage\n", b"commit refs/heads/x\nmark :5\n",
    b"data 5\nhello\n", b"from :1\nmerge :2\n", b"done\n", b"secret token hunter2 here\n", b"fix deadbeef1234 and 0123456789abcdef0123456789abcdef01234567\n",
    b"unicode \xc3\xa9\xe2\x82\xac\n", b"blob\nmark :1\n", b"reset refs/tags/x\n", b"aabb abab\n", b"\n\n",
];
const BLOBS: &[&[u8]] = &[
    b"a\n", b"b\n", b"", b"secret=hunter2\n", b"\x00\x01binary\xff\xfe", b"done\n", b"data 5\nabc\n", b"aabb abab aaa\n",
    b"line1\r\nline2\r\n", b"blob\nmark :9\n", b"commit refs/heads/main\n", b"xxxxxxxxxxxxxxxxxxxxxxxxxxxxxxxxxxxxxxxxxxxxxxxxxxxxxxxxxxxxxxxxxxxxxxxx",
];

pub fn fake_oid(kind: u8, n: u32) -> Vec<u8> {
    format!("{:02x}{:038x}", kind, n).into_bytes()
}

impl History {
    pub fn generate(rng: &mut Rng, awkward: bool, max_commits: usize) -> History {
        Self::generate_cfg(rng, awkward, max_commits, false)
    }

    /// `real_repo`: the history will be imported into a real repository and exported again by git,
    /// so it stays inside what `git fast-export` represents losslessly and what a work tree can hold
    /// (no `encoding` header, symlinks with a plausible target, no `refs/remotes/origin/*` which the
    /// tool deliberately migrates to local branches)
    pub fn generate_cfg(rng: &mut Rng, awkward: bool, max_commits: usize, real_repo: bool) -> History {
        let mut h = History { awkward_paths: awkward, ..Default::default() };
        let mut next_mark: u32 = 1;
        let ncommits = 1 + rng.below(max_commits);
        // commit headers name heads mostly, but also tag refs (a tag that is the only ref reaching a
        // commit) and refs outside heads/tags
        let pool: [&[u8]; 9] = [b"refs/heads/main", b"refs/heads/side", b"refs/heads/dev", b"refs/heads/rel/1", b"refs/tags/only", b"refs/heads/ma", b"refs/tags/v1", b"refs/zzz/x", b"refs/heads/main"];
        let nbranches = 1 + rng.below(4);
        let branch_names: Vec<&[u8]> = (0..nbranches).map(|_| *rng.pick(&pool)).collect();
        let big = 1000 + rng.below(3) as usize; // sizes around a limit
        for ci in 0..ncommits {
            // parents
            let mut parents: Vec<usize> = Vec::new();
            let root = ci == 0 || rng.chance(1, 12);
            if !root {
                let p0 = if rng.chance(2, 3) { ci - 1 } else { rng.below(ci) };
                parents.push(p0);
                if ci >= 2 && rng.chance(1, 4) {
                    let extra = 1 + rng.below(2);
                    for _ in 0..extra {
                        let p = rng.below(ci);
                        if (real_repo || rng.chance(9, 10)) && parents.contains(&p) { continue; }
                        parents.push(p);
                    }
                }
            }
            let refname = branch_names[rng.below(nbranches)].to_vec();
            // tree starts from first parent
            let mut tree: BTreeMap<Vec<u8>, (&'static str, usize)> = match parents.first() {
                Some(&p) => h.commits[p].tree.clone(),
                None => BTreeMap::new(),
            };
            let mut changes: Vec<Change> = Vec::new();
            let nch = if rng.chance(1, 8) { 0 } else { 1 + rng.below(4) };
            for _ in 0..nch {
                if !tree.is_empty() && rng.chance(1, 4) {
                    let keys: Vec<Vec<u8>> = tree.keys().cloned().collect();
                    let p = rng.pick(&keys).clone();
                    if changes.iter().any(|c| matches!(c, Change::M { path, .. } | Change::D { path } if *path == p)) { continue; }
                    tree.remove(&p);
                    changes.push(Change::D { path: p });
                } else {
                    let pool: &[&[u8]] = if awkward && rng.chance(1, 2) { AWKWARD } else { PATHS };
                    let mut p = rng.pick(pool).to_vec();
                    if !real_repo && rng.chance(1, 25) {
                        // a very long path (stream level only: no work tree has to hold it): more than 8 KiB as written on the
                        // change line, plain ASCII or — quoted, four bytes per byte — non-ASCII; under directories the selectors name
                        p = if rng.chance(1, 2) {
                            [&b"src/"[..], &[&[b'l'; 200][..], b"/"].concat().repeat(42)[..], b"f"].concat()
                        } else {
                            [&b"drop/"[..], &["\u{e9}".repeat(100).as_bytes(), b"/"].concat().repeat(11)[..], b"x"].concat()
                        };
                    }
                    // no file/directory conflicts and one change per path per commit
                    if changes.iter().any(|c| matches!(c, Change::M { path, .. } | Change::D { path } if *path == p)) { continue; }
                    let conflict = tree.keys().any(|k| k != &p && (k.starts_with(&[p.as_slice(), b"/"].concat()) || p.starts_with(&[k.as_slice(), b"/"].concat())));
                    if conflict { continue; }
                    // blob: reuse or new
                    let bi = if !h.blobs.is_empty() && rng.chance(1, 3) { rng.below(h.blobs.len()) } else {
                        let mut content = rng.pick(BLOBS).to_vec();
                        if rng.chance(1, 6) { content = vec![b'x'; big - 1 + rng.below(3)]; }
                        if rng.chance(1, 5) { content.extend_from_slice(format!("v{}\n", next_mark).as_bytes()); }
                        h.blobs.push(Blob { mark: next_mark, content });
                        next_mark += 1;
                        h.blobs.len() - 1
                    };
                    let mode = *rng.pick(MODES);
                    let bi = if mode == "120000" && real_repo {
                        h.blobs.push(Blob { mark: next_mark, content: format!("target{}", next_mark).into_bytes() });
                        next_mark += 1;
                        h.blobs.len() - 1
                    } else { bi };
                    tree.insert(p.clone(), (mode, bi));
                    changes.push(Change::M { mode, blob: bi, path: p });
                }
            }
            let ident = |rng: &mut Rng| {
                let mut v = rng.pick(NAMES).to_vec();
                v.extend_from_slice(b" <");
                v.extend_from_slice(*rng.pick(EMAILS));
                v.extend_from_slice(b"> ");
                v.extend_from_slice(format!("{}", rng.pick(&[1700000017u64, 1000, 0, 1234567890, 86400])).as_bytes());
                v.push(b' ');
                v.extend_from_slice(*rng.pick(TZS));
                v
            };
            let mut extra_headers = Vec::new();
            if !real_repo && rng.chance(1, 15) { extra_headers.push(b"encoding ISO-8859-1\n".to_vec()); }
            h.commits.push(Commit { mark: next_mark, refname, parents, author: ident(rng), committer: ident(rng), msg: rng.pick(MSGS).to_vec(), changes, tree, extra_headers });
            next_mark += 1;
        }
        // refs via reset
        let reset_names: [&[u8]; 8] = [b"refs/heads/other", b"refs/tags/lw", b"refs/tags/v1", b"refs/zzz/old", b"refs/remotes/origin/main", b"refs/tags/rel-2", b"refs/heads/main2", b"refs/tags/ann"];
        for _ in 0..rng.below(4) {
            let mut r = rng.pick(&reset_names).to_vec();
            if real_repo && r == b"refs/remotes/origin/main" { r = b"refs/remotes/upstream/main".to_vec(); }
            if h.resets.iter().any(|(x, _)| *x == r) { continue; }
            h.resets.push((r, rng.below(ncommits)));
        }
        for _ in 0..rng.below(3) {
            let name = rng.pick(&[&b"ann"[..], b"v2", b"rel-1", b"v1"]).to_vec();
            // a ref name exists once in a repository: no second tag of that name, no lightweight tag or
            // commit header using it
            let full = [b"refs/tags/".as_ref(), &name].concat();
            if h.tags.iter().any(|t| t.name == name) || h.resets.iter().any(|(r, _)| *r == full) || h.commits.iter().any(|c| c.refname == full) { continue; }
            let mark = if rng.chance(2, 3) { let m = next_mark; next_mark += 1; Some(m) } else { None };
            let mut tagger = b"T Agger <t@e> 1700000000 +0000".to_vec();
            if rng.chance(1, 4) { tagger = b"J\xc3\xb6rg <old@example.com> 5 -0830".to_vec(); }
            h.tags.push(AnnTag { name, mark, target: rng.below(ncommits), tagger, msg: rng.pick(MSGS).to_vec() });
        }
        h
    }

    pub fn max_mark(&self) -> u32 {
        let mut m = 0;
        for b in &self.blobs { m = m.max(b.mark); }
        for c in &self.commits { m = m.max(c.mark); }
        for t in &self.tags { if let Some(x) = t.mark { m = m.max(x); } }
        m
    }

    pub fn all_paths(&self) -> Vec<Vec<u8>> {
        let mut v: Vec<Vec<u8>> = Vec::new();
        for c in &self.commits {
            for ch in &c.changes {
                match ch { Change::M { path, .. } | Change::D { path } => v.push(path.clone()) }
            }
        }
        v.sort();
        v.dedup();
        v
    }

    /// exporter-shaped stream as chunks (one per command), for stream-level correspondence
    pub fn render_chunks(&self, rng: &mut Rng, with_data: bool) -> Vec<Vec<u8>> {
        let mut out: Vec<Vec<u8>> = vec![b"feature done\n".to_vec()];
        let mut blob_done = vec![false; self.blobs.len()];
        let mut seen_ref: Vec<Vec<u8>> = Vec::new();
        for c in &self.commits {
            if with_data {
                for ch in &c.changes {
                    if let Change::M { blob, .. } = ch {
                        if !blob_done[*blob] {
                            blob_done[*blob] = true;
                            let b = &self.blobs[*blob];
                            let mut s = format!("blob\nmark :{}\noriginal-oid {}\ndata {}\n", b.mark, String::from_utf8_lossy(&fake_oid(0xb0, b.mark)), b.content.len()).into_bytes();
                            s.extend_from_slice(&b.content);
                            s.push(b'\n');
                            out.push(s);
                        }
                    }
                }
            }
            let mut s = Vec::new();
            if c.parents.is_empty() {
                // the exporter resets the ref before a parentless commit (always when the ref was used before)
                if seen_ref.contains(&c.refname) || rng.chance(1, 2) {
                    s.extend_from_slice(b"reset ");
                    s.extend_from_slice(&c.refname);
                    s.push(b'\n');
                }
            }
            seen_ref.push(c.refname.clone());
            s.extend_from_slice(b"commit ");
            s.extend_from_slice(&c.refname);
            s.extend_from_slice(format!("\nmark :{}\noriginal-oid {}\n", c.mark, String::from_utf8_lossy(&fake_oid(0xc0, c.mark))).as_bytes());
            s.extend_from_slice(b"author ");
            s.extend_from_slice(&c.author);
            s.extend_from_slice(b"\ncommitter ");
            s.extend_from_slice(&c.committer);
            s.push(b'\n');
            for h in &c.extra_headers { s.extend_from_slice(h); }
            s.extend_from_slice(format!("data {}\n", c.msg.len()).as_bytes());
            s.extend_from_slice(&c.msg);
            for (i, p) in c.parents.iter().enumerate() {
                s.extend_from_slice(if i == 0 { b"from :" } else { b"merge :" });
                s.extend_from_slice(format!("{}\n", self.commits[*p].mark).as_bytes());
            }
            for ch in &c.changes {
                match ch {
                    Change::M { mode, blob, path } => {
                        s.extend_from_slice(format!("M {} ", mode).as_bytes());
                        if with_data { s.extend_from_slice(format!(":{}", self.blobs[*blob].mark).as_bytes()); }
                        else { s.extend_from_slice(&fake_oid(0xb0, self.blobs[*blob].mark)); }
                        s.push(b' ');
                        s.extend_from_slice(&render_path(path, rng));
                        s.push(b'\n');
                    }
                    Change::D { path } => {
                        s.extend_from_slice(b"D ");
                        s.extend_from_slice(&render_path(path, rng));
                        s.push(b'\n');
                    }
                }
            }
            s.push(b'\n');
            out.push(s);
        }
        for (r, ci) in &self.resets {
            let mut s = b"reset ".to_vec();
            s.extend_from_slice(r);
            s.extend_from_slice(format!("\nfrom :{}\n\n", self.commits[*ci].mark).as_bytes());
            out.push(s);
        }
        for t in &self.tags {
            let mut s = b"tag ".to_vec();
            s.extend_from_slice(&t.name);
            s.push(b'\n');
            if let Some(m) = t.mark { s.extend_from_slice(format!("mark :{}\n", m).as_bytes()); }
            s.extend_from_slice(format!("from :{}\noriginal-oid {}\ntagger ", self.commits[t.target].mark, String::from_utf8_lossy(&fake_oid(0xa0, t.mark.unwrap_or(0)))).as_bytes());
            s.extend_from_slice(&t.tagger);
            s.extend_from_slice(format!("\ndata {}\n", t.msg.len()).as_bytes());
            s.extend_from_slice(&t.msg);
            s.push(b'\n');
            out.push(s);
        }
        out.push(b"done\n".to_vec());
        out
    }
}

/// one of the exporter's renderings of a path
pub fn render_path(p: &[u8], rng: &mut Rng) -> Vec<u8> {
    use crate::suites::lines::{git_quote, plain_ok};
    let needs = p.iter().any(|&b| b <= 0x20 || b == b'"' || b == b'\\' || b == 0x7f);
    let high = p.iter().any(|&b| b >= 0x80);
    if needs || !plain_ok(p) {
        git_quote(p, rng.chance(1, 2))
    } else if high {
        if rng.chance(1, 2) { git_quote(p, true) } else { p.to_vec() }
    } else {
        p.to_vec()
    }
}

/// the option set of one case
#[derive(Clone, Debug, Default)]
pub struct OptSet {
    pub invert: bool,
    pub paths: Vec<Vec<u8>>,
    pub globs: Vec<Vec<u8>>,
    pub regexes: Vec<String>,
    pub renames: Vec<(Vec<u8>, Vec<u8>)>,
    pub tag_rename: Option<(Vec<u8>, Vec<u8>)>,
    pub branch_rename: Option<(Vec<u8>, Vec<u8>)>,
    pub max_blob: Option<usize>,
    pub strip_file: Option<Vec<u8>>,
    pub msg_file: Option<Vec<u8>>,
    pub blob_file: Option<Vec<u8>>,
    pub mailmap_file: Option<Vec<u8>>,
    pub email_file: Option<Vec<u8>>,
    pub author_file: Option<Vec<u8>>,
    pub committer_file: Option<Vec<u8>>,
    pub shift: Option<i64>,
    pub set: Option<i64>,
    pub prune_empty: u8,
    pub prune_degenerate: u8,
    pub no_ff: bool,
    /// a `commit-map` lying in the debug directory from an earlier run (stream-level runs only): turns on the old-id translator
    pub prior_map: Option<Vec<u8>>,
    /// the regex engine is a parameter of the model: what the `regex:`/`glob:` rules of the message / blob rule file do to
    /// the inputs this case presents (messages / payloads after the literal rules), tabulated with the real engine
    pub rx_msg: Option<Vec<(Vec<u8>, Vec<u8>)>>,
    pub rx_blob: Option<Vec<(Vec<u8>, Vec<u8>)>>,
    /// `--no-data` given explicitly (stream-level runs only: with an override stream it matters to option validation alone)
    pub no_data: bool,
}

impl OptSet {
    /// a commit-map of an imagined earlier run whose old ids are the ones the generated messages cite (in full or abbreviated)
    pub fn gen_prior_map(rng: &mut Rng) -> Vec<u8> {
        let hex = |rng: &mut Rng, n: usize| -> Vec<u8> { (0..n).map(|_| *rng.pick(b"0123456789abcdef")).collect() };
        let mut lines: Vec<Vec<u8>> = Vec::new();
        let cited_full = b"0123456789abcdef0123456789abcdef01234567".to_vec();
        let mut cited_short = b"deadbeef1234".to_vec();
        cited_short.extend_from_slice(&hex(rng, 28));
        let push = |rng: &mut Rng, old: Vec<u8>, lines: &mut Vec<Vec<u8>>| {
            let new = match rng.below(6) { 0 => old.clone(), 1 => vec![b'0'; 40], _ => hex(rng, 40) };
            let o = if rng.chance(1, 4) { old.to_ascii_uppercase() } else { old };
            lines.push([&o[..], b" ", &new[..]].concat());
        };
        if rng.chance(4, 5) { push(rng, cited_full, &mut lines); }
        if rng.chance(4, 5) { push(rng, cited_short, &mut lines); }
        if rng.chance(1, 5) { let mut other = b"deadbeef1234".to_vec(); other.extend_from_slice(&hex(rng, 28)); push(rng, other, &mut lines); }
        if rng.chance(1, 4) { let mut other = b"aabb".to_vec(); other.extend_from_slice(&hex(rng, 36)); push(rng, other, &mut lines); }
        for _ in 0..rng.below(3) { let o = hex(rng, 40); push(rng, o, &mut lines); }
        if rng.chance(1, 10) { lines.push(Vec::new()); }
        let mut c = lines.join(&b"\n"[..]);
        if !lines.is_empty() { c.push(b'\n'); }
        c
    }

    pub fn generate(rng: &mut Rng, h: &History) -> OptSet {
        let mut o = OptSet { prune_empty: 1, prune_degenerate: 1, ..Default::default() };
        // option values derived from paths of the history: the very long paths are left out (validate_options refuses a
        // selector or rename longer than 4096 bytes; that validation is not part of the model)
        let paths: Vec<Vec<u8>> = h.all_paths().into_iter().filter(|p| p.len() < 1000).collect();
        let prefix = |rng: &mut Rng| -> Vec<u8> {
            if paths.is_empty() { return b"a".to_vec(); }
            let p = rng.pick(&paths).clone();
            match rng.below(4) {
                0 => p,
                1 => match p.iter().position(|&b| b == b'/') { Some(i) => p[..=i].to_vec(), None => p },
                2 => p[..1 + rng.below(p.len())].to_vec(),
                _ => rng.pick(&[&b"src/"[..], b"drop/", b"d/", b"keep", b"zzz"]).to_vec(),
            }
        };
        if rng.chance(3, 5) {
            for _ in 0..1 + rng.below(2) { if rng.chance(1, 2) { o.paths.push(prefix(rng)); } }
            if rng.chance(1, 3) { o.globs.push(rng.pick(&[&b"src/**/*.md"[..], b"**/x", b"*.log", b"**/*.log", b"d/*", b"*", b"**", b"drop/?", b"**/f"]).to_vec()); }
            if rng.chance(1, 4) {
                o.regexes.push(rng.pick(&[r"\.md$", "^d/", "x", r"^[a-b]$", " ", "\\\\", r"(?i)^readme", r"(?i)\.LOG$", "(?i)^keep$"]).to_string());
                // a second --path-regex: the selection is the union of the individual patterns (an inline flag of one must not
                // leak into the other)
                if rng.chance(1, 2) { o.regexes.push(rng.pick(&["^docs/", "^src/", "^a$", r"^SRC/", "^build/"]).to_string()); }
            }
            o.invert = rng.chance(1, 3);
        }
        if rng.chance(1, 3) {
            for _ in 0..1 + rng.below(2) {
                let old = prefix(rng);
                let mut new = rng.pick(&[&b""[..], b"new/", b"e/", b"moved/sub/", b"sp ace/", b"z"]).to_vec();
                // directory prefixes map to directory prefixes (no `a//b`, no file renamed to a directory name)
                if new.ends_with(b"/") && !old.ends_with(b"/") { new.pop(); }
                // renaming a whole file name to the empty path is a misconfiguration outside every claim
                if new.is_empty() && !old.ends_with(b"/") { continue; }
                if old != new { o.renames.push((old, new)); }
            }
        }
        if rng.chance(1, 4) {
            let (a, b) = *rng.pick(&[(&b"v"[..], &b"rel-"[..]), (b"", b"new-"), (b"rel-", b"v"), (b"ann", b"note"), (b"l", b"L"), (b"v", b"x/v"), (b"on", b""), (b"v", b"v"), (b"", b"")]);
            o.tag_rename = Some((a.to_vec(), b.to_vec()));
            // a rename that changes the case of the prefix only
            if !a.is_empty() && rng.chance(1, 4) { o.tag_rename = Some((a.to_vec(), a.to_ascii_uppercase())); }
        }
        if rng.chance(1, 4) {
            let (a, b) = *rng.pick(&[(&b"ma"[..], &b"tru"[..]), (b"main", b"trunk"), (b"", b"b/"), (b"side", b"topic"), (b"rel/", b"release/"), (b"ma", b"main"), (b"side", b"main"), (b"m", b""), (b"ma", b"ma"), (b"", b"")]);
            o.branch_rename = Some((a.to_vec(), b.to_vec()));
            if !a.is_empty() && rng.chance(1, 4) { o.branch_rename = Some((a.to_vec(), a.to_ascii_uppercase())); }
        }
        if rng.chance(1, 4) { o.max_blob = Some(*rng.pick(&[999usize, 1000, 1001, 1002, 5, 1, 100000])); }
        if rng.chance(1, 6) && !h.blobs.is_empty() {
            let mut f = b"# ids\n".to_vec();
            for _ in 0..1 + rng.below(2) {
                let b = rng.pick(&h.blobs);
                let mut id = fake_oid(0xb0, b.mark);
                if rng.chance(1, 3) { id = id.to_ascii_uppercase(); }
                f.extend_from_slice(&id);
                f.extend_from_slice(if rng.chance(1, 5) { b"  \r\n" } else { b"\n" });
            }
            if rng.chance(1, 30) { f.extend_from_slice(b"nothex\n"); }
            o.strip_file = Some(f);
        }
        let lit_rules = |rng: &mut Rng| -> Vec<u8> {
            let mut f = Vec::new();
            for _ in 0..1 + rng.below(3) {
                f.extend_from_slice(*rng.pick(&[&b"hunter2"[..], b"secret", b"ab", b"aa", b"message", b"a", b"\n", b"deadbeef1234", b"# c", b"line", b"x"]));
                if rng.chance(2, 3) { f.extend_from_slice(b"==>"); f.extend_from_slice(*rng.pick(&[&b""[..], b"***", b"b", b"aab", b"hunter2!", b"X==>Y"])); }
                f.push(b'\n');
            }
            // pattern rules (applied after all literal rules, in file order): some match what a literal rule above produces
            if rng.chance(1, 3) {
                for _ in 0..1 + rng.below(2) {
                    f.extend_from_slice(*rng.pick(&[&b"regex:[0-9]+==>N"[..], b"regex:(?i)secret==>[$0]", b"regex:\\*\\*\\*==>stars", b"regex:b(a*)b==>[$1]", b"glob:hunt*2==>G", b"regex:^fix ==>FIX: ",
                        b"regex:hunter2!==>bang", b"glob:a?b==>Q", b"regex:X==>hunter2", b"regex:me(ss)age==>$1", b"regex:\\bline\\b"]));
                    f.push(b'\n');
                }
            }
            f
        };
        if rng.chance(1, 4) { o.msg_file = Some(lit_rules(rng)); }
        if rng.chance(1, 4) { o.blob_file = Some(lit_rules(rng)); }
        if rng.chance(1, 8) { o.mailmap_file = Some(rng.pick(&[&b"New Name <new@example.com> <old@example.com>\n"[..], b"<n@e> <a@example.com>\nX <x@e> <a17@e>\n", b"# none\n", b"N <n@e> Old <old@example.com>\n"]).to_vec()); }
        if rng.chance(1, 8) { o.email_file = Some(rng.pick(&[&b"example.com==>corp.example\n"[..], b"a17@e==>b@e\n", b"a==>b\n"]).to_vec()); }
        if rng.chance(1, 8) { o.author_file = Some(rng.pick(&[&b"17==>99\n"[..], b"author==>writer\n", b"A U Thor==>A. U. Thor\n", b"e==>E\nex==>X\n"]).to_vec()); }
        if rng.chance(1, 8) { o.committer_file = Some(rng.pick(&[&b"17==>99\n"[..], b"committer==>pusher\n", b"J==>K\n"]).to_vec()); }
        if rng.chance(1, 6) { o.shift = Some(*rng.pick(&[-3600i64, 3600, -2000000000, 86400, -1, -97200, 779400, -5400, 90061, -694861])); }
        if rng.chance(1, 12) { o.set = Some(*rng.pick(&[0i64, 1234567890])); }
        o.prune_empty = *rng.pick(&[0u8, 1, 1, 2]);
        o.prune_degenerate = *rng.pick(&[0u8, 1, 1, 2]);
        o.no_ff = rng.chance(1, 6);
        o
    }

    /// option sets lib.rs `validate_options` refuses (and their accepted neighbours): a zero or all-ones size limit, `--no-data`
    /// next to content rules, a selector or rename of more than 4096 bytes, a rename onto itself
    pub fn perturb_validity(&mut self, rng: &mut Rng) {
        match rng.below(8) {
            0 => self.max_blob = Some(0),
            1 => self.max_blob = Some(usize::MAX),
            2 => self.max_blob = Some(usize::MAX - 1),
            3 => { self.no_data = true; if rng.chance(2, 3) && self.blob_file.is_none() { self.blob_file = Some(b"hunter2==>x\n".to_vec()); } }
            4 => self.paths.push(vec![b'p'; *rng.pick(&[4096usize, 4097][..])]),
            5 => self.renames.push((b"keep".to_vec(), b"keep".to_vec())),
            6 => self.renames.push((vec![b'q'; *rng.pick(&[4096usize, 4097][..])], b"short".to_vec())),
            _ => self.renames.push((b"lib/".to_vec(), vec![b'r'; *rng.pick(&[4096usize, 4097][..])])),
        }
    }

    pub fn neutral() -> OptSet {
        OptSet { prune_empty: 0, prune_degenerate: 0, ..Default::default() }
    }
}
