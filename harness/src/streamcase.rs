//! One stream-level case: (option set, stream bytes) → what the real tool computes under
//! `--dry-run --fe_stream_override` and the request line for the model's `filter` op.
use crate::gen::OptSet;
use crate::wire::{enc, enc_list, enc_pairs};
use filter_repo_rs::opts::PruneMode;
use filter_repo_rs::Options;
use std::path::{Path, PathBuf};

pub struct Scratch {
    pub dir: PathBuf,
}

impl Scratch {
    pub fn new(tag: &str) -> Scratch {
        let dir = std::env::temp_dir().join(format!("frrs-stream-{}-{}", std::process::id(), tag));
        let _ = std::fs::remove_dir_all(&dir);
        std::fs::create_dir_all(&dir).unwrap();
        let st = std::process::Command::new("git").arg("init").arg("-q").arg(&dir).status().expect("git init");
        assert!(st.success());
        Scratch { dir }
    }
    pub fn debug_dir(&self) -> PathBuf {
        self.dir.join(".git").join("filter-repo")
    }
}

impl Drop for Scratch {
    fn drop(&mut self) {
        let _ = std::fs::remove_dir_all(&self.dir);
    }
}

fn pm(x: u8) -> PruneMode {
    match x { 0 => PruneMode::Never, 1 => PruneMode::Auto, _ => PruneMode::Always }
}
fn pm_name(x: u8) -> &'static str {
    match x { 0 => "never", 1 => "auto", _ => "always" }
}

pub struct Observed {
    pub status: String, // ok | err | panic
    pub filtered: Vec<u8>,
    pub commit_map: Vec<u8>,
    pub ref_map: Vec<u8>,
}

impl Observed {
    pub fn reply(&self) -> String {
        if self.status == "ok" {
            format!("ok {} {} {}", enc(&self.filtered), enc(&self.commit_map), enc(&self.ref_map))
        } else {
            self.status.clone()
        }
    }
}

/// compare only the status when the run failed (the partial output of a failed run is not claimed)
pub fn normalise_model_reply(r: &str) -> String {
    if r.starts_with("err") { "err".to_string() } else { r.to_string() }
}

pub fn write_aux(dir: &Path, name: &str, content: &Option<Vec<u8>>) -> Option<PathBuf> {
    content.as_ref().map(|c| {
        let p = dir.join(name);
        std::fs::write(&p, c).unwrap();
        p
    })
}

pub fn build_options(sc: &Scratch, o: &OptSet, stream_path: &Path) -> Options {
    let aux = sc.dir.join("aux");
    let _ = std::fs::create_dir_all(&aux);
    let mut opts = Options::default();
    opts.source = sc.dir.clone();
    opts.target = sc.dir.clone();
    opts.dry_run = true;
    opts.debug_mode = true;
    opts.force = true;
    opts.quiet = true;
    opts.enforce_sanity = false;
    opts.fe_stream_override = Some(stream_path.to_path_buf());
    opts.paths = o.paths.clone();
    opts.path_globs = o.globs.clone();
    opts.path_regexes = o.regexes.iter().map(|r| regex::bytes::Regex::new(r).unwrap()).collect();
    opts.invert_paths = o.invert;
    opts.path_renames = o.renames.clone();
    opts.tag_rename = o.tag_rename.clone();
    opts.branch_rename = o.branch_rename.clone();
    opts.max_blob_size = o.max_blob;
    opts.strip_blobs_with_ids = write_aux(&aux, "strip", &o.strip_file);
    opts.replace_message_file = write_aux(&aux, "msg", &o.msg_file);
    opts.replace_text_file = write_aux(&aux, "blob", &o.blob_file);
    opts.mailmap_file = write_aux(&aux, "mailmap", &o.mailmap_file);
    opts.email_rewrite_file = write_aux(&aux, "email", &o.email_file);
    opts.author_rewrite_file = write_aux(&aux, "author", &o.author_file);
    opts.committer_rewrite_file = write_aux(&aux, "committer", &o.committer_file);
    opts.date_shift = o.shift;
    opts.date_set = o.set;
    opts.prune_empty = pm(o.prune_empty);
    opts.prune_degenerate = pm(o.prune_degenerate);
    opts.no_ff = o.no_ff;
    opts.no_data = o.no_data;
    opts
}

/// run the real tool on (options, stream) in the scratch repository
pub fn observe(sc: &Scratch, o: &OptSet, stream: &[u8], nmarks: u32) -> Observed {
    let dd = sc.debug_dir();
    let _ = std::fs::remove_dir_all(&dd);
    std::fs::create_dir_all(&dd).unwrap();
    // a marks file standing for the importer's: mark m ↦ a fake id derived from m
    let mut marks = String::new();
    for m in 1..=nmarks {
        marks.push_str(&format!(":{} {:040x}\n", m, m));
    }
    std::fs::write(dd.join("target-marks"), marks).unwrap();
    if let Some(pm) = &o.prior_map {
        std::fs::write(dd.join("commit-map"), pm).unwrap();
    }
    let stream_path = sc.dir.join("stream.fe");
    std::fs::write(&stream_path, stream).unwrap();
    let opts = build_options(sc, o, &stream_path);
    let res = std::panic::catch_unwind(std::panic::AssertUnwindSafe(|| filter_repo_rs::run(&opts)));
    let status = match res {
        Ok(Ok(())) => "ok",
        Ok(Err(_)) => "err",
        Err(_) => "panic",
    };
    let rd = |n: &str| std::fs::read(dd.join(n)).unwrap_or_default();
    Observed { status: status.to_string(), filtered: rd("fast-export.filtered"), commit_map: rd("commit-map"), ref_map: rd("ref-map") }
}

/// tabulate the pattern rules (`regex:` / `glob:` lines) of the rule files on the inputs of this case
pub fn fill_regex_tables(o: &mut OptSet, msgs: &[Vec<u8>], blobs: &[Vec<u8>]) {
    use filter_repo_rs::verif_hooks::{blob_regex, msg_regex, MessageReplacer};
    let has_rx = |c: &Vec<u8>| c.split(|b| *b == b'\n').any(|l| l.starts_with(b"regex:") || l.starts_with(b"glob:"));
    let dir = std::env::temp_dir().join(format!("frrs-rx-{}-{:?}", std::process::id(), std::thread::current().id()));
    let _ = std::fs::create_dir_all(&dir);
    let p = dir.join("rules");
    o.rx_msg = None;
    o.rx_blob = None;
    if let Some(c) = o.msg_file.clone() {
        if has_rx(&c) {
            std::fs::write(&p, &c).unwrap();
            if let (Ok(lit), Ok(Some(rx))) = (MessageReplacer::from_file(&p), msg_regex::RegexReplacer::from_file(&p)) {
                let mut t: Vec<(Vec<u8>, Vec<u8>)> = Vec::new();
                for m in msgs {
                    let k = lit.apply(m.clone());
                    let v = rx.apply_regex(k.clone());
                    if k != v && !t.iter().any(|(a, _)| a == &k) { t.push((k, v)); }
                }
                o.rx_msg = Some(t);
            }
        }
    }
    if let Some(c) = o.blob_file.clone() {
        if has_rx(&c) {
            std::fs::write(&p, &c).unwrap();
            if let (Ok(lit), Ok(Some(rx))) = (MessageReplacer::from_file(&p), blob_regex::RegexReplacer::from_file(&p)) {
                let mut t: Vec<(Vec<u8>, Vec<u8>)> = Vec::new();
                for b in blobs {
                    let k = lit.apply(b.clone());
                    let v = rx.apply_regex(k.clone());
                    if k != v && !t.iter().any(|(a, _)| a == &k) { t.push((k, v)); }
                }
                o.rx_blob = Some(t);
            }
        }
    }
    let _ = std::fs::remove_dir_all(&dir);
}

pub fn rx_hits(o: &OptSet, paths: &[Vec<u8>]) -> Vec<Vec<u8>> {
    let res: Vec<regex::bytes::Regex> = o.regexes.iter().map(|r| regex::bytes::Regex::new(r).unwrap()).collect();
    paths.iter().filter(|p| res.iter().any(|re| re.is_match(p))).cloned().collect()
}

/// the model request for the same case
pub fn model_request(o: &OptSet, stream: &[u8], nmarks: u32, all_paths: &[Vec<u8>]) -> String {
    let mut kv: Vec<String> = Vec::new();
    kv.push(format!("inv={}", if o.invert { 1 } else { 0 }));
    kv.push(format!("paths={}", enc_list(&o.paths)));
    kv.push(format!("globs={}", enc_list(&o.globs)));
    kv.push(format!("ren={}", enc_pairs(&o.renames)));
    if !o.regexes.is_empty() {
        kv.push("rx=1".into());
        kv.push(format!("rxhits={}", enc_list(&rx_hits(o, all_paths))));
    }
    let pr = |p: &Option<(Vec<u8>, Vec<u8>)>| match p { Some((a, b)) => format!("{}:{}", enc(a), enc(b)), None => "none".into() };
    kv.push(format!("tagren={}", pr(&o.tag_rename)));
    kv.push(format!("brren={}", pr(&o.branch_rename)));
    if let Some(m) = o.max_blob { kv.push(format!("max={m}")); }
    let f = |kv: &mut Vec<String>, k: &str, c: &Option<Vec<u8>>| if let Some(c) = c { kv.push(format!("{k}={}", enc(c))); };
    f(&mut kv, "stripfile", &o.strip_file);
    f(&mut kv, "msgfile", &o.msg_file);
    f(&mut kv, "blobfile", &o.blob_file);
    f(&mut kv, "mailmapfile", &o.mailmap_file);
    f(&mut kv, "emailfile", &o.email_file);
    f(&mut kv, "authorfile", &o.author_file);
    f(&mut kv, "committerfile", &o.committer_file);
    f(&mut kv, "shmap", &o.prior_map);
    if let Some(t) = &o.rx_msg { kv.push(format!("rxmsg={}", enc_pairs(t))); }
    if let Some(t) = &o.rx_blob { kv.push(format!("rxblob={}", enc_pairs(t))); }
    if let Some(s) = o.shift { kv.push(format!("shift={s}")); }
    if let Some(s) = o.set { kv.push(format!("set={s}")); }
    kv.push(format!("pe={}", pm_name(o.prune_empty)));
    kv.push(format!("pd={}", pm_name(o.prune_degenerate)));
    kv.push(format!("noff={}", if o.no_ff { 1 } else { 0 }));
    if o.no_data { kv.push("nodata=1".into()); }
    kv.push(format!("marks={nmarks}"));
    format!("filter {} {}", kv.join(";"), enc(stream))
}
