//! gencase — emit generated (history, option set) cases as JSON lines for the end-to-end runner:
//! the stream that builds the repository, the CLI arguments of the real tool, auxiliary files,
//! and the option string of the model/oracle request. One PRNG state per case.
//! usage: gencase --seed N --count K --mode filter|neutral|rules [--max-commits M]
use frrs_harness::gen::{History, OptSet};
use frrs_harness::rng::Rng;
use frrs_harness::streamcase::{fill_regex_tables, model_request};
use frrs_harness::wire::enc;
use serde_json::json;

fn utf8_ok(b: &[u8]) -> bool {
    std::str::from_utf8(b).is_ok()
}

/// keep only option values that can be given on the command line unchanged
fn cli_clean(o: &mut OptSet) {
    let ok_path = |p: &Vec<u8>| utf8_ok(p) && !p.is_empty() && !p.contains(&b'\\') && !p.starts_with(b"/") && !p.contains(&b':')
        && !p.split(|&b| b == b'/').any(|s| s == b"." || s == b"..") && !(p.len() >= 2 && p[1] == b':');
    o.paths.retain(ok_path);
    o.globs.retain(ok_path);
    o.renames.retain(|(a, b)| (a.is_empty() || ok_path(a)) && (b.is_empty() || ok_path(b)) && a != b);
    let ok_ref = |p: &Option<(Vec<u8>, Vec<u8>)>| p.as_ref().map_or(true, |(a, b)| utf8_ok(a) && utf8_ok(b) && !a.contains(&b':') && !b.contains(&b':'));
    if !ok_ref(&o.tag_rename) { o.tag_rename = None; }
    if !ok_ref(&o.branch_rename) { o.branch_rename = None; }
}

fn s(b: &[u8]) -> String {
    String::from_utf8(b.to_vec()).unwrap()
}

/// the shift as the documented duration syntax: a sign, then one or more `<n> <unit>` components (the sign applies to the sum)
fn render_duration(sh: i64) -> String {
    let sign = if sh < 0 { "-" } else if sh % 2 == 0 { "+" } else { "" };
    let mut rest = sh.unsigned_abs();
    if rest < 60 || rest % 7 == 3 || rest > 1_000_000_000 { return format!("{}{} seconds", sign, rest); }
    let units: [(u64, &str, &str); 5] = [(604800, "week", "weeks"), (86400, "day", "days"), (3600, "hour", "hours"), (60, "minute", "min"), (1, "second", "s")];
    let mut parts = Vec::new();
    for (len, one, many) in units {
        let n = rest / len;
        rest %= len;
        if n > 0 { parts.push(format!("{} {}", n, if n == 1 { one } else { many })); }
    }
    format!("{}{}", sign, parts.join(" "))
}

fn main() {
    let args: Vec<String> = std::env::args().skip(1).collect();
    let (mut seed, mut count, mut mode, mut max_commits) = (1u64, 10usize, String::from("filter"), 9usize);
    let mut i = 0;
    while i < args.len() {
        match args[i].as_str() {
            "--seed" => { seed = args[i + 1].parse().unwrap(); i += 2; }
            "--count" => { count = args[i + 1].parse().unwrap(); i += 2; }
            "--mode" => { mode = args[i + 1].clone(); i += 2; }
            "--max-commits" => { max_commits = args[i + 1].parse().unwrap(); i += 2; }
            _ => { i += 1; }
        }
    }
    let mut rng = Rng::new(seed ^ 0xE2E ^ mode.len() as u64);
    for id in 0..count {
        let mut r = rng.fork();
        let awkward = r.chance(1, 2);
        let h = History::generate_cfg(&mut r, awkward, max_commits, true);
        let chunks = h.render_chunks(&mut r, true);
        let stream: Vec<u8> = chunks.concat();
        let mut o = match mode.as_str() {
            "neutral" => OptSet::neutral(),
            _ => OptSet::generate(&mut r, &h),
        };
        if mode == "rules" {
            // content/message rules (C07). Two cases in three: rules only (no path, size or ref options); every third case
            // keeps the other generated options next to the rules (stripping by size or id, ref renames, path selection:
            // what those remove must be gone from the object store as well, and must not switch the rules off)
            let keep_msg = o.msg_file.clone();
            let keep_blob = o.blob_file.clone();
            if id % 3 != 2 {
                o = OptSet::neutral();
                o.prune_empty = 1; o.prune_degenerate = 1;
            } else {
                o.regexes.clear();
                if o.tag_rename.is_none() && r.chance(1, 2) { o.tag_rename = Some((b"".to_vec(), b"old-".to_vec())); }
                if o.branch_rename.is_none() && r.chance(1, 3) { o.branch_rename = Some((b"".to_vec(), b"b-".to_vec())); }
                if o.strip_file.is_none() && o.max_blob.is_none() && r.chance(1, 2) { o.max_blob = Some(60); }
            }
            o.msg_file = keep_msg.or(Some(b"hunter2==>***\nmessage\n".to_vec()));
            o.blob_file = keep_blob.or(Some(b"hunter2==>***REMOVED***\nsecret\n".to_vec()));
        }
        cli_clean(&mut o);
        // the two directory shorthands of the command line, typed with and without the trailing slash; their documented
        // meaning (`--path D/ --path-rename D/:` and `--path-rename :D/`) is what the model is given
        let mut shorthand: Vec<String> = Vec::new();
        if mode == "filter" && r.chance(1, 6) {
            let dirs: Vec<Vec<u8>> = h.all_paths().iter().filter_map(|p| p.iter().position(|&b| b == b'/').map(|i| p[..i].to_vec()))
                .filter(|d| utf8_ok(d) && !d.is_empty() && !d.contains(&b'\\') && !d.contains(&b':') && d != b"." && d != b"..").collect();
            if !dirs.is_empty() {
                let d = dirs[r.below(dirs.len())].clone();
                let mut full = d.clone(); full.push(b'/');
                o.paths.push(full.clone());
                o.renames.push((full, Vec::new()));
                shorthand.push("--subdirectory-filter".into());
                shorthand.push(if r.chance(2, 3) { s(&d) } else { format!("{}/", s(&d)) });
            }
        } else if mode == "filter" && r.chance(1, 12) {
            let d = *r.pick(&[&b"sub"[..], b"into/deep", b"d"][..]);
            let mut full = d.to_vec(); full.push(b'/');
            o.renames.push((Vec::new(), full));
            shorthand.push("--to-subdirectory-filter".into());
            shorthand.push(if r.chance(2, 3) { s(d) } else { format!("{}/", s(d)) });
        }
        let n_short_paths = if shorthand.first().map_or(false, |f| f == "--subdirectory-filter") { 1 } else { 0 };
        let n_short_renames = if shorthand.is_empty() { 0 } else { 1 };
        // CLI arguments
        let mut cli: Vec<String> = Vec::new();
        for p in &o.paths[..o.paths.len() - n_short_paths] { cli.push("--path".into()); cli.push(s(p)); }
        for g in &o.globs { cli.push("--path-glob".into()); cli.push(s(g)); }
        for rx in &o.regexes { cli.push("--path-regex".into()); cli.push(rx.clone()); }
        if o.invert { cli.push("--invert-paths".into()); }
        for (a, b) in &o.renames[..o.renames.len() - n_short_renames] { cli.push("--path-rename".into()); cli.push(format!("{}:{}", s(a), s(b))); }
        cli.extend(shorthand.iter().cloned());
        if let Some((a, b)) = &o.tag_rename { cli.push("--tag-rename".into()); cli.push(format!("{}:{}", s(a), s(b))); }
        if let Some((a, b)) = &o.branch_rename { cli.push("--branch-rename".into()); cli.push(format!("{}:{}", s(a), s(b))); }
        if let Some(m) = o.max_blob { cli.push("--max-blob-size".into()); cli.push(m.to_string()); }
        let mut aux = serde_json::Map::new();
        let mut file_arg = |cli: &mut Vec<String>, flag: &str, name: &str, c: &Option<Vec<u8>>| {
            if let Some(c) = c { cli.push(flag.into()); cli.push(format!("@AUX@/{name}")); aux.insert(name.into(), json!(enc(c))); }
        };
        file_arg(&mut cli, "--strip-blobs-with-ids", "strip", &o.strip_file);
        file_arg(&mut cli, "--replace-message", "msg", &o.msg_file);
        file_arg(&mut cli, "--replace-text", "blob", &o.blob_file);
        file_arg(&mut cli, "--mailmap", "mailmap", &o.mailmap_file);
        file_arg(&mut cli, "--email-rewrite", "email", &o.email_file);
        file_arg(&mut cli, "--author-rewrite", "author", &o.author_file);
        file_arg(&mut cli, "--committer-rewrite", "committer", &o.committer_file);
        if let Some(sh) = o.shift { cli.push("--date-shift".into()); cli.push(render_duration(sh)); }
        if let Some(st) = o.set { cli.push("--date-set".into()); cli.push(st.to_string()); }
        let pmn = |x: u8| match x { 0 => "never", 1 => "auto", _ => "always" };
        cli.push("--prune-empty".into()); cli.push(pmn(o.prune_empty).into());
        cli.push("--prune-degenerate".into()); cli.push(pmn(o.prune_degenerate).into());
        if o.no_ff { cli.push("--no-ff".into()); }
        // model option string (the strip file is translated to real ids by the runner)
        let mut o2 = o.clone();
        o2.strip_file = None;
        {
            let msgs: Vec<Vec<u8>> = h.commits.iter().map(|c| c.msg.clone()).chain(h.tags.iter().map(|t| t.msg.clone())).collect();
            let blobs: Vec<Vec<u8>> = h.blobs.iter().map(|b| b.content.clone()).collect();
            fill_regex_tables(&mut o2, &msgs, &blobs);
        }
        let req = model_request(&o2, b"", 0, &h.all_paths());
        let model_opts = req.split(' ').nth(1).unwrap().to_string();
        // HEAD: a branch that exists at the end
        let mut heads: Vec<Vec<u8>> = h.commits.iter().map(|c| c.refname.clone()).chain(h.resets.iter().map(|(r, _)| r.clone())).filter(|r| r.starts_with(b"refs/heads/")).collect();
        heads.sort(); heads.dedup();
        let head = if heads.is_empty() { None } else { Some(s(&heads[r.below(heads.len())])) };
        let lits: Vec<String> = [&o.blob_file, &o.msg_file].iter().map(|f| f.as_ref().map(|c| enc(c)).unwrap_or_default()).collect();
        println!("{}", json!({
            "id": id, "seed": seed, "mode": mode, "stream_hex": enc(&stream), "head": head, "cli": cli, "aux": aux,
            "strip_file_hex": o.strip_file.as_ref().map(|c| enc(c)), "model_opts": model_opts,
            "max_mark": h.max_mark(), "n_commits": h.commits.len(), "blob_rules_hex": lits[0], "msg_rules_hex": lits[1],
            "neutral": mode == "neutral", "has_regex": !o.regexes.is_empty(),
            "paths_hex": h.all_paths().iter().map(|p| enc(p)).collect::<Vec<_>>(),
        }));
    }
}
