//! C04/C08/C10: the old-commit-id translator of message.rs (`ShortHashMapper`: reading `commit-map`, `update_mapping`,
//! `rewrite`) vs Frrs/ShortHash.lean, and the length-header parser of limits.rs vs `parseDataHeader`.
use crate::model::Model;
use crate::report::Suite;
use crate::rng::Rng;
use crate::runner::{guarded, run_suite};
use crate::suites::simple::{scratch_file, Args, Simple};
use crate::wire::{dec_list, enc, enc_list};
use filter_repo_rs::verif_hooks::{parse_data_size_header, ShortHashMapper};

const MAX_BLOCK: usize = 500 * 1024 * 1024;

/// a[0] = the header line
pub fn dataheader_suite() -> Simple {
    Simple {
        eval: Box::new(|a: &Args| {
            let line = a[0].clone();
            (format!("dataheader {}", enc(&a[0])), guarded(move || match parse_data_size_header(&line) {
                Ok(n) => n.to_string(),
                Err(_) => "err".to_string(),
            }))
        }),
        // C10: a header is accepted only if it is `data <decimal>` within the limit, and then as that number
        oracle: Box::new(|a: &Args, r: &str, _m: &mut Model| {
            if r == "panic" { return Some("the header parser panicked".into()); }
            if r == "err" { return None; }
            let n: usize = match r.parse() { Ok(n) => n, Err(_) => return Some(format!("unreadable reply {r}")) };
            if n > MAX_BLOCK { return Some(format!("a data block of {n} bytes is accepted, above the limit of {MAX_BLOCK}")); }
            if !a[0].starts_with(b"data ") { return Some("a line that is not a `data ` header is accepted".into()); }
            let digits: String = a[0][5..].iter().filter(|b| b.is_ascii_digit()).map(|b| *b as char).collect();
            let others = a[0][5..].iter().filter(|b| !b.is_ascii_digit() && !b.is_ascii_whitespace() && **b != b'+' && **b < 0x80).count();
            if others > 0 { return Some("a header with characters other than digits, a sign and blanks is accepted".into()); }
            match digits.parse::<u128>() {
                Ok(d) if d == n as u128 => None,
                _ => Some(format!("the header's digits are {digits} but it is read as {n}")),
            }
        }),
        shrinkable: vec![true],
        labels: vec!["header_line"],
    }
}

/// a[0] = content of commit-map, a[1..] = script items: `U<old>\0<new>` (update_mapping) or `R<text>` (rewrite)
pub fn shorthash_suite() -> Simple {
    Simple {
        eval: Box::new(|a: &Args| {
            let content = a[0].clone();
            let script: Vec<Vec<u8>> = a[1..].to_vec();
            (format!("shorthash {} {}", enc(&a[0]), enc_list(&script)), guarded(move || {
                let dir = scratch_file(&format!("shmap-{:?}", std::thread::current().id()));
                let _ = std::fs::create_dir_all(&dir);
                std::fs::write(dir.join("commit-map"), &content).unwrap();
                let mut mapper = match ShortHashMapper::from_debug_dir(&dir) {
                    Ok(Some(m)) => m,
                    Ok(None) => return "nomap".to_string(),
                    Err(_) => return "err".to_string(),
                };
                let mut outs: Vec<Vec<u8>> = Vec::new();
                for it in &script {
                    match it.first() {
                        Some(b'U') => {
                            if let Some(p) = it[1..].iter().position(|b| *b == 0) {
                                mapper.update_mapping(&it[1..1 + p], &it[2 + p..]);
                            }
                        }
                        Some(b'R') => {
                            // twice: the second answer comes from the mapper's cache
                            let once = mapper.rewrite(it[1..].to_vec());
                            let again = mapper.rewrite(it[1..].to_vec());
                            if once != again { return "unstable".to_string(); }
                            outs.push(once);
                        }
                        _ => {}
                    }
                }
                enc_list(&outs)
            }))
        }),
        // C04: only maximal hex words change, length for length; C08: a table that maps every id to itself changes nothing
        oracle: Box::new(|a: &Args, r: &str, _m: &mut Model| {
            if r == "panic" { return Some("the translator panicked".into()); }
            if r == "unstable" { return Some("the same message is rewritten differently the second time".into()); }
            if r == "nomap" || r == "err" { return None; }
            let outs = match dec_list(r) { Some(o) => o, None => return Some("unreadable reply".into()) };
            let texts: Vec<&[u8]> = a[1..].iter().filter(|it| it.first() == Some(&b'R')).map(|it| &it[1..]).collect();
            if outs.len() != texts.len() { return Some("number of rewritten messages differs".into()); }
            // entries: (old, new) of file lines and updates
            let mut pairs: Vec<(Vec<u8>, Vec<u8>)> = Vec::new();
            for l in a[0].split(|b| *b == b'\n') {
                let l: Vec<u8> = { let mut v = l.to_vec(); while matches!(v.last(), Some(b'\r') | Some(b'\n')) { v.pop(); } v };
                if let Some(p) = l.iter().position(|b| *b == b' ') { if p > 0 && p + 1 < l.len() { pairs.push((l[..p].to_vec(), l[p + 1..].to_vec())); } }
            }
            for it in a[1..].iter().filter(|it| it.first() == Some(&b'U')) {
                if let Some(p) = it[1..].iter().position(|b| *b == 0) { pairs.push((it[1..1 + p].to_vec(), it[2 + p..].to_vec())); }
            }
            let all_self = pairs.iter().all(|(o, n)| o.eq_ignore_ascii_case(n));
            let all_40 = pairs.iter().all(|(_, n)| n.len() == 40 && n.iter().all(|b| b.is_ascii_hexdigit()));
            for (t, o) in texts.iter().zip(outs.iter()) {
                if all_self && *t != &o[..] {
                    return Some(format!("every recorded id maps to itself, yet the message {:?} becomes {:?}", String::from_utf8_lossy(t), String::from_utf8_lossy(o)));
                }
                if all_40 {
                    if t.len() != o.len() { return Some(format!("a message of {} bytes becomes one of {} bytes although every new id has 40 digits", t.len(), o.len())); }
                    for (i, (x, y)) in t.iter().zip(o.iter()).enumerate() {
                        if x != y && !(x.is_ascii_hexdigit() && y.is_ascii_hexdigit()) {
                            return Some(format!("byte {i} of the message, outside any hex word, is changed"));
                        }
                    }
                    // a changed hex run must be a maximal ASCII word of 7..=40 hex digits
                    let mut i = 0;
                    while i < t.len() {
                        if t[i].is_ascii_alphanumeric() || t[i] == b'_' {
                            let s = i;
                            while i < t.len() && (t[i].is_ascii_alphanumeric() || t[i] == b'_') { i += 1; }
                            let w = &t[s..i];
                            let cand = w.len() >= 7 && w.len() <= 40 && w.iter().all(|b| b.is_ascii_hexdigit());
                            if !cand && w != &o[s..i] { return Some(format!("the word {:?}, not a 7-40 digit hex word, is changed", String::from_utf8_lossy(w))); }
                        } else { i += 1; }
                    }
                }
            }
            None
        }),
        shrinkable: vec![false],
        labels: vec!["commit_map"],
    }
}

fn hex_id(rng: &mut Rng) -> Vec<u8> { (0..40).map(|_| *rng.pick(b"0123456789abcdef")).collect() }

fn mixed_case(rng: &mut Rng, s: &[u8]) -> Vec<u8> {
    match rng.below(4) {
        0 => s.to_ascii_uppercase(),
        1 => s.iter().map(|b| if rng.chance(1, 2) { b.to_ascii_uppercase() } else { *b }).collect(),
        _ => s.to_vec(),
    }
}

pub fn run(tier: &str, seed: u64, model: &mut Model) -> Vec<Suite> {
    let (n_hdr, n_map) = if tier == "thorough" { (200_000, 60_000) } else { (20_000, 6_000) };
    let mut out = Vec::new();
    // ---- data headers
    {
        let mut rng = Rng::new(seed ^ 0xDA7A);
        let mut rep = Suite::new("dataheader", &format!("{n_hdr} seeded header lines: `data <n>` with n around 0, the 500 MB limit (±1), 2^32, 2^63, 2^64 and 25-digit values, leading zeros, `+`/`-` signs, underscores, hex/exponent forms, ASCII and Unicode blanks around the number (space, tab, CR, LF, U+00A0, U+2003, U+0085), non-ASCII digits, invalid UTF-8, missing or doubled blank after `data`, other keywords. Non-trivial: the line is accepted by the model-independent reference (digits within the limit); distinct by the line."));
        let def = dataheader_suite();
        let specials: Vec<u128> = vec![0, 1, 9, 10, 99, 12345, 524_288_000 - 1, 524_288_000, 524_288_001, 600_000_000, 4_294_967_295, 4_294_967_296, 9_223_372_036_854_775_807, 18_446_744_073_709_551_615, 18_446_744_073_709_551_616, 1_000_000_000_000_000_000_000_000];
        let blanks: Vec<&[u8]> = vec![b" ", b"\t", b"\r", b"\n", b"\x0b", b"\x0c", "\u{a0}".as_bytes(), "\u{2003}".as_bytes(), "\u{85}".as_bytes(), "\u{3000}".as_bytes(), "\u{200b}".as_bytes(), b"\xc2", b"\xe2\x80"];
        let mut cases: Vec<(Args, bool)> = Vec::new();
        for _ in 0..n_hdr {
            let n: u128 = if rng.chance(1, 2) { *rng.pick(&specials[..]) } else if rng.chance(1, 2) { rng.below(1000) as u128 } else { (rng.next() as u128) % 600_000_000 };
            let mut num = n.to_string().into_bytes();
            let mut plain = true;
            if rng.chance(1, 10) { let z = rng.below(4) + 1; num = [vec![b'0'; z], num].concat(); }
            if rng.chance(1, 12) { num.insert(0, b'+'); }
            if rng.chance(1, 25) { num.insert(0, b'-'); plain = false; }
            if rng.chance(1, 25) && num.len() > 1 { let at = 1 + rng.below(num.len() - 1); num.insert(at, *rng.pick(b"_,. xe")); plain = false; }
            if rng.chance(1, 30) { num = format!("0x{:x}", n).into_bytes(); plain = false; }
            if rng.chance(1, 30) { num = "５".as_bytes().to_vec(); plain = false; }
            if rng.chance(1, 30) { num.push(*rng.pick(&[0xffu8, 0x80, 0xc3])); plain = false; }
            if rng.chance(1, 40) { num.clear(); plain = false; }
            let mut line = match rng.below(20) { 0 => b"data".to_vec(), 1 => b"data  ".to_vec(), 2 => b"Data ".to_vec(), 3 => b"data\t".to_vec(), 4 => b" data ".to_vec(), _ => b"data ".to_vec() };
            let kw_ok = line == b"data " || line == b"data  ";
            if rng.chance(1, 6) { line.extend_from_slice(*rng.pick(&blanks[..])); }
            line.extend_from_slice(&num);
            if rng.chance(1, 6) { line.extend_from_slice(*rng.pick(&blanks[..])); }
            if rng.chance(9, 10) { line.push(b'\n'); }
            cases.push((vec![line], plain && kw_ok && n <= 524_288_000));
        }
        let mut it = cases.into_iter();
        run_suite(&def, &mut it, model, &mut rep);
        out.push(rep);
    }
    // ---- short hashes
    {
        let mut rng = Rng::new(seed ^ 0x5407);
        let mut rep = Suite::new("shorthash", &format!("{n_map} seeded commit-map files (0–8 entries; ids sharing their first 7–12 digits; upper-case ids; an id recorded twice; ids mapped to themselves, to another id, to the all-zero id; short and over-long ids; CRLF, blank lines, lines without or with a leading blank, several blanks) each with a script of 2–7 steps: `update_mapping` calls (new, overriding and self-mapping entries) and messages to rewrite, every message rewritten twice (the second answer comes from the cache). Messages are built from recorded ids in full, abbreviated to 6/7/8/12/39 digits, with one extra digit, in upper or mixed case, glued to ASCII and non-ASCII word characters (é ß 中 д, `_`, letters) or set off by punctuation and non-word Unicode (— “ € U+00A0), unknown hex words and all-digit words. Non-trivial: some message contains a recorded id or an abbreviation of one that stands alone; distinct by file and script."));
        let def = shorthash_suite();
        let word_uni: Vec<&str> = vec!["é", "ß", "中", "д"];
        let nonword_uni: Vec<&str> = vec!["—", "“", "€", "\u{a0}"];
        let mut cases: Vec<(Args, bool)> = Vec::new();
        for _ in 0..n_map {
            let n = rng.below(9);
            let mut olds: Vec<Vec<u8>> = Vec::new();
            for k in 0..n {
                let mut id = hex_id(&mut rng);
                if k > 0 && rng.chance(1, 3) { let share = 7 + rng.below(6); let src = olds[rng.below(olds.len())].clone(); let l = share.min(src.len()); id[..l].copy_from_slice(&src[..l]); }
                if rng.chance(1, 15) { id.truncate(*rng.pick(&[3usize, 6, 7, 12, 39])); }
                if rng.chance(1, 25) { id.extend_from_slice(b"ab"); }
                olds.push(id);
            }
            let identity_file = rng.chance(1, 4);
            let mut lines: Vec<Vec<u8>> = Vec::new();
            let mut news: Vec<Vec<u8>> = Vec::new();
            for o in &olds {
                let nw = if identity_file || rng.chance(1, 6) { o.clone() } else if rng.chance(1, 8) { vec![b'0'; 40] } else { hex_id(&mut rng) };
                news.push(nw.clone());
                let mut l = mixed_case(&mut rng, o);
                l.push(b' ');
                if rng.chance(1, 30) { l.push(b' '); }
                l.extend_from_slice(&if identity_file { l[..o.len()].to_vec() } else { mixed_case(&mut rng, &nw) });
                if rng.chance(1, 30) { l.insert(0, b' '); }
                if rng.chance(1, 30) { l = o.clone(); }
                lines.push(l);
                if rng.chance(1, 12) { lines.push(Vec::new()); }
                if rng.chance(1, 15) && !identity_file { let mut d = o.clone(); d.push(b' '); d.extend_from_slice(&hex_id(&mut rng)); lines.push(d); }
            }
            let sep: &[u8] = if rng.chance(1, 6) { b"\r\n" } else { b"\n" };
            let mut content = lines.join(sep);
            if !lines.is_empty() && rng.chance(4, 5) { content.extend_from_slice(sep); }
            let mut a: Args = vec![content];
            let steps = 2 + rng.below(6);
            let mut nontrivial = false;
            let mut known = olds.clone();
            for _ in 0..steps {
                if rng.chance(1, 4) {
                    let o = if !known.is_empty() && rng.chance(1, 2) { known[rng.below(known.len())].clone() } else { hex_id(&mut rng) };
                    let nw = if identity_file || rng.chance(1, 5) { o.clone() } else { hex_id(&mut rng) };
                    let mut it = vec![b'U'];
                    it.extend_from_slice(&mixed_case(&mut rng, &o)); it.push(0); it.extend_from_slice(&mixed_case(&mut rng, &nw));
                    known.push(o);
                    a.push(it);
                } else {
                    let mut t: Vec<u8> = vec![b'R'];
                    let words = 1 + rng.below(6);
                    for _ in 0..words {
                        // the hex word
                        let mut w: Vec<u8> = if !known.is_empty() && rng.chance(3, 4) {
                            let id = known[rng.below(known.len())].clone();
                            let l = *rng.pick(&[40usize, 40, 6, 7, 8, 12, 39, 10, 20]);
                            id[..l.min(id.len())].to_vec()
                        } else {
                            match rng.below(4) { 0 => b"1234567".to_vec(), 1 => b"deadbeef".to_vec(), 2 => hex_id(&mut rng), _ => hex_id(&mut rng)[..9].to_vec() }
                        };
                        w = mixed_case(&mut rng, &w);
                        if rng.chance(1, 10) { w.push(*rng.pick(b"0af")); }
                        let alone = match rng.below(10) {
                            0 => { let g = rng.pick(&word_uni[..]).as_bytes(); if rng.chance(1, 2) { w = [g, &w[..]].concat(); } else { w.extend_from_slice(g); } false }
                            1 => { let g: &[u8] = *rng.pick(&[&b"_"[..], &b"x"[..], &b"g"[..], &b"Z"[..]][..]); if rng.chance(1, 2) { w = [g, &w[..]].concat(); } else { w.extend_from_slice(g); } false }
                            2 => { let g = rng.pick(&nonword_uni[..]).as_bytes(); w = [g, &w[..], g].concat(); true }
                            3 => { w = [&b"("[..], &w[..], b")."].concat(); true }
                            _ => true,
                        };
                        if alone && w.len() >= 7 { nontrivial = true; }
                        t.extend_from_slice(&w);
                        t.extend_from_slice(*rng.pick(&[&b" "[..], &b"\n"[..], &b", "[..], &b" see "[..], &b": "[..], &b".."[..], &b"/"[..], &b"-"[..]][..]));
                    }
                    a.push(t);
                }
            }
            cases.push((a, nontrivial && n > 0));
        }
        let mut it = cases.into_iter();
        run_suite(&def, &mut it, model, &mut rep);
        out.push(rep);
    }
    out
}
