//! C04/C06 glue: the value parsers of the command line (opts.rs `parse_max_blob_size`, `parse_duration`, `parse_timestamp`)
//! vs Frrs/CliValues.lean. `parse_duration`/`parse_timestamp` end the process with status 2 on invalid input, so each of
//! their cases runs in a child process (`fncorr --probe <kind> <hex>`).
use crate::model::Model;
use crate::report::Suite;
use crate::rng::Rng;
use crate::runner::{guarded, run_suite};
use crate::suites::simple::{Args, Simple};
use crate::wire::{dec, enc};
use filter_repo_rs::verif_hooks::{parse_duration, parse_max_blob_size, parse_timestamp};

/// child side: `fncorr --probe duration|timestamp <hex>` prints the parsed value (the parser itself exits with 2 on bad input)
pub fn probe(kind: &str, hex: &str) -> ! {
    let b = dec(hex).unwrap_or_default();
    let s = String::from_utf8(b).unwrap_or_default();
    // the parsers print their complaint to stderr before exiting; keep the parent's log quiet
    let v = match kind { "duration" => parse_duration(&s), _ => parse_timestamp(&s) };
    println!("{v}");
    std::process::exit(0)
}

fn run_probe(kind: &str, arg: &[u8]) -> String {
    let exe = std::env::current_exe().expect("current exe");
    match std::process::Command::new(exe).arg("--probe").arg(kind).arg(enc(arg)).stderr(std::process::Stdio::null()).output() {
        Ok(o) => match o.status.code() {
            Some(0) => String::from_utf8_lossy(&o.stdout).trim().to_string(),
            Some(2) => "exit2".to_string(),
            Some(101) => "panic".to_string(),
            c => format!("status-{c:?}"),
        },
        Err(e) => format!("spawn-failed-{e}"),
    }
}

/// a[0] = kind (maxblob | duration | timestamp), a[1] = the option value as typed
pub fn suite() -> Simple {
    Simple {
        eval: Box::new(|a: &Args| {
            let kind = String::from_utf8_lossy(&a[0]).into_owned();
            let v = a[1].clone();
            let reply = match kind.as_str() {
                "maxblob" => guarded(move || match parse_max_blob_size(&String::from_utf8_lossy(&v)) { Ok(n) => n.to_string(), Err(_) => "err".to_string() }),
                k => run_probe(k, &v),
            };
            (format!("clival {} {}", kind, enc(&a[1])), reply)
        }),
        // the documented meaning, computed independently for the plain spellings
        oracle: Box::new(|a: &Args, r: &str, _m: &mut Model| {
            if r == "panic" { return Some("the value parser panicked".into()); }
            let kind = String::from_utf8_lossy(&a[0]).into_owned();
            let v = String::from_utf8_lossy(&a[1]).into_owned();
            match kind.as_str() {
                "maxblob" => {
                    // <digits>[KMG] in either case: powers of 1024
                    let (num, mult) = match v.chars().last() {
                        Some('K') | Some('k') => (&v[..v.len() - 1], 1u128 << 10),
                        Some('M') | Some('m') => (&v[..v.len() - 1], 1u128 << 20),
                        Some('G') | Some('g') => (&v[..v.len() - 1], 1u128 << 30),
                        _ => (&v[..], 1u128),
                    };
                    if !num.is_empty() && num.len() < 15 && num.bytes().all(|b| b.is_ascii_digit()) {
                        let want = num.parse::<u128>().unwrap() * mult;
                        if r != want.to_string() { return Some(format!("--max-blob-size {v} means {want} bytes but is read as {r}")); }
                    }
                    None
                }
                "duration" => {
                    // [+-]<n> <unit> with the documented unit lengths
                    let t = v.trim();
                    let (sign, rest) = if let Some(x) = t.strip_prefix('-') { (-1i128, x) } else if let Some(x) = t.strip_prefix('+') { (1, x) } else { (1, t) };
                    let parts: Vec<&str> = rest.split(' ').collect();
                    if parts.len() == 2 && parts[0].len() < 10 && !parts[0].is_empty() && parts[0].bytes().all(|b| b.is_ascii_digit()) {
                        let secs = match parts[1] { "second" | "seconds" => 1, "minute" | "minutes" => 60, "hour" | "hours" => 3600, "day" | "days" => 86400, "week" | "weeks" => 604800, _ => 0i128 };
                        if secs != 0 {
                            let want = sign * parts[0].parse::<i128>().unwrap() * secs;
                            if r != want.to_string() { return Some(format!("--date-shift {v:?} means {want} seconds but is read as {r}")); }
                        }
                    }
                    None
                }
                _ => {
                    // a plain integer is itself
                    if !v.is_empty() && v.len() < 18 && v.bytes().all(|b| b.is_ascii_digit()) && r != v.trim_start_matches('0') && !(v.bytes().all(|b| b == b'0') && r == "0") {
                        return Some(format!("--date-set {v} is read as {r}"));
                    }
                    None
                }
            }
        }),
        shrinkable: vec![false, true],
        labels: vec!["parser", "value"],
    }
}

fn civil(rng: &mut Rng, valid: bool) -> (i64, u32, u32) {
    let y = *rng.pick(&[1970i64, 1999, 2000, 2001, 2023, 2024, 2038, 2100, 1900, 1969, 2400, 9999][..]) + if rng.chance(1, 3) { rng.below(30) as i64 } else { 0 };
    let y = y.min(9999);
    let m = 1 + rng.below(12) as u32;
    let leap = (y % 4 == 0 && y % 100 != 0) || y % 400 == 0;
    let dim = match m { 2 => if leap { 29 } else { 28 }, 4 | 6 | 9 | 11 => 30, _ => 31 };
    let rd = 1 + rng.below(dim as usize) as u32;
    if valid { (y, m, *rng.pick(&[1u32, dim, rd][..])) } else {
        match rng.below(3) { 0 => (y, 13, 1), 1 => (y, m, dim + 1), _ => (y, 0, 1) }
    }
}

pub fn run(tier: &str, seed: u64, model: &mut Model) -> Vec<Suite> {
    let (n_size, n_dur, n_ts) = if tier == "thorough" { (60_000, 12_000, 12_000) } else { (6_000, 1_500, 1_500) };
    let mut rng = Rng::new(seed ^ 0xC11A);
    let mut rep = Suite::new("clivalues", &format!("{n_size} --max-blob-size values (digits with and without K/M/G in either case, underscores, leading zeros and `+`, values around 2^64 and 2^64/1024^k, other letters, empty, blanks, non-ASCII), {n_dur} --date-shift values (one to four `<n> <unit>` components with every documented unit name and abbreviation in mixed case, signs in front and inside, underscores, extra blanks and tabs, saturating magnitudes, odd token counts, unknown units) and {n_ts} --date-set values (integers with signs, underscores and blanks; the seven date shapes in canonical spelling with dates around month ends, leap days, 1970, 2038 and 9999, offsets; out-of-range fields, words). Each --date-shift/--date-set case runs the real parser in a child process because it exits on bad input. Non-trivial: the parser accepts the value; distinct by parser and text."));
    let def = suite();
    let mut cases: Vec<(Args, bool)> = Vec::new();
    // --max-blob-size
    for _ in 0..n_size {
        let base: u128 = match rng.below(6) {
            0 => rng.below(5000) as u128,
            1 => *rng.pick(&[0u128, 1, 1023, 1024, 1025, 1u128 << 20, 1u128 << 30, (1u128 << 64) - 1, 1u128 << 64, (1u128 << 54) - 1, 1u128 << 54, (1u128 << 44), (1u128 << 34) - 1, 1u128 << 34, 17_179_869_184, 18_014_398_509_481_984][..]),
            2 => (rng.next() as u128) % (1 << 40),
            _ => rng.below(100) as u128,
        };
        let mut t = base.to_string();
        if rng.chance(1, 8) && t.len() > 1 { let at = 1 + rng.below(t.len() - 1); t.insert(at, '_'); }
        if rng.chance(1, 20) { t.insert(0, '_'); }
        if rng.chance(1, 15) { t = format!("00{t}"); }
        if rng.chance(1, 15) { t.insert(0, '+'); }
        if rng.chance(1, 30) { t.insert(0, '-'); }
        if rng.chance(1, 40) { t.clear(); }
        let suffix = *rng.pick(&["", "", "", "K", "k", "M", "m", "G", "g", "T", "B", "KB", "kb", " ", "_", "é", "K ", " K"][..]);
        t.push_str(suffix);
        if rng.chance(1, 40) { t.insert(0, ' '); }
        let ok = parse_max_blob_size(&t).is_ok();
        cases.push((vec![b"maxblob".to_vec(), t.into_bytes()], ok));
    }
    // --date-shift
    let units = ["second", "seconds", "s", "minute", "minutes", "min", "mins", "m", "hour", "hours", "h", "day", "days", "d", "week", "weeks", "w", "month", "months", "mo", "year", "years", "y"];
    for _ in 0..n_dur {
        let mut t = String::new();
        t.push_str(*rng.pick(&["", "", "+", "-", "-", " ", "+ ", "- "][..]));
        let comps = 1 + rng.below(4);
        let mut plausible = true;
        for c in 0..comps {
            if c > 0 { t.push_str(*rng.pick(&[" ", " ", "  ", "\t"][..])); }
            let n: i128 = match rng.below(6) { 0 => rng.below(100_000) as i128, 1 => *rng.pick(&[0i128, 9_223_372_036_854_775_807, 300_000_000_000, 292_471_208_678, 292_471_208_677, 106_751_991_167_301][..]), _ => rng.below(100) as i128 };
            let mut ns = n.to_string();
            if rng.chance(1, 12) { ns.insert(0, '-'); }
            if rng.chance(1, 20) { ns.insert(0, '+'); }
            if rng.chance(1, 12) && ns.len() > 2 { ns.insert(ns.len() - 1, '_'); }
            if rng.chance(1, 40) { ns.push('x'); plausible = false; }
            t.push_str(&ns);
            if rng.chance(1, 30) { plausible = false; break; }
            t.push_str(*rng.pick(&[" ", " ", "  "][..]));
            let mut u = rng.pick(&units[..]).to_string();
            if rng.chance(1, 5) { u = u.to_uppercase(); }
            if rng.chance(1, 8) { let mut cs: Vec<char> = u.chars().collect(); cs[0] = cs[0].to_ascii_uppercase(); u = cs.into_iter().collect(); }
            if rng.chance(1, 25) { u = rng.pick(&["fortnight", "sec", "hrs", "ms", "minute,", "dayz", "M0"][..]).to_string(); plausible = false; }
            t.push_str(&u);
        }
        if rng.chance(1, 10) { t.push(' '); }
        cases.push((vec![b"duration".to_vec(), t.into_bytes()], plausible));
    }
    // --date-set
    for _ in 0..n_ts {
        let (t, ok): (String, bool) = match rng.below(10) {
            0 | 1 => {
                let n: i128 = match rng.below(4) { 0 => *rng.pick(&[0i128, 1, 1_700_000_000, 2_147_483_647, 2_147_483_648, 9_223_372_036_854_775_807, 9_223_372_036_854_775_808, 253_402_300_799][..]), _ => (rng.next() % 4_000_000_000) as i128 };
                let mut s = n.to_string();
                if rng.chance(1, 8) { s.insert(0, '-'); }
                if rng.chance(1, 12) { s.insert(0, '+'); }
                if rng.chance(1, 8) && s.len() > 4 { s.insert(s.len() - 3, '_'); }
                if rng.chance(1, 10) { s = format!(" {s} "); }
                if rng.chance(1, 30) { s.push_str("s"); }
                let ok = !s.ends_with('s');
                (s, ok)
            }
            2 => (rng.pick(&["", "now", "yesterday", "2024", "12:00:00", "2024-03", "2024-03-01T", "T12:00:00Z", "2024-03-01 12", "2024-03-01T12:00", "01/03/2024", "2024.03.01", "2024-03-01 12:00:00 UTC", "2024-03-01T12:00:00+0900", "2024-03-01T12:00:00 Z"][..]).to_string(), false),
            k => {
                let valid = !rng.chance(1, 6);
                let (y, m, d) = civil(&mut rng, valid);
                let (mut h, mut mi, mut se) = (rng.below(24) as u32, rng.below(60) as u32, rng.below(60) as u32);
                if rng.chance(1, 4) { h = *rng.pick(&[0u32, 23][..]); mi = *rng.pick(&[0u32, 59][..]); se = *rng.pick(&[0u32, 59][..]); }
                let mut ok = valid;
                if rng.chance(1, 15) { match rng.below(3) { 0 => h = 24, 1 => mi = 60, _ => se = 61 }; if k != 6 && k != 9 { ok = false; } }
                let s = match k {
                    3 => { let off = *rng.pick(&["Z", "Z", "+00:00", "+09:00", "-05:00", "+05:30", "-00:30", "+23:59", "-12:00"][..]); format!("{y:04}-{m:02}-{d:02}T{h:02}:{mi:02}:{se:02}{off}") }
                    4 => format!("{y:04}-{m:02}-{d:02} {h:02}:{mi:02}:{se:02}"),
                    5 => format!("{y:04}-{m:02}-{d:02}T{h:02}:{mi:02}:{se:02}"),
                    6 => format!("{y:04}-{m:02}-{d:02}"),
                    7 => { if se == 61 { ok = valid; } format!("{y:04}-{m:02}-{d:02} {h:02}:{mi:02}") }
                    8 => format!("{y:04}/{m:02}/{d:02} {h:02}:{mi:02}:{se:02}"),
                    _ => format!("{y:04}/{m:02}/{d:02}"),
                };
                (s, ok)
            }
        };
        cases.push((vec![b"timestamp".to_vec(), t.into_bytes()], ok));
    }
    let mut it = cases.into_iter();
    run_suite(&def, &mut it, model, &mut rep);
    vec![rep]
}
