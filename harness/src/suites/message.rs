//! C05/C04/C07: message.rs — replace_all_bytes, rule-file parsers, MessageReplacer::apply,
//! template expansion — vs Frrs/Replace.lean.
use crate::model::Model;
use crate::report::Suite;
use crate::rng::{enumerate_strings, Rng};
use crate::runner::{guarded, run_suite};
use crate::suites::simple::{scratch_file, Args, Simple};
use crate::wire::{enc, enc_bool, enc_pairs, show};
use filter_repo_rs::verif_hooks::{blob_regex, msg_regex, replace_all_bytes, MessageReplacer};

/// leftmost, non-overlapping, single pass — written from the statement, not from the code
pub fn reference_replace(h: &[u8], n: &[u8], r: &[u8]) -> Vec<u8> {
    if n.is_empty() {
        return h.to_vec();
    }
    let mut out = Vec::new();
    let mut pos = 0;
    while let Some(i) = h[pos..].windows(n.len()).position(|w| w == n) {
        out.extend_from_slice(&h[pos..pos + i]);
        out.extend_from_slice(r);
        pos += i + n.len();
    }
    out.extend_from_slice(&h[pos..]);
    out
}

/// the documented meaning of a rule file's literal part
pub fn reference_literal_rules(content: &[u8]) -> Vec<(Vec<u8>, Vec<u8>)> {
    let mut out = Vec::new();
    for raw in content.split(|&b| b == b'\n') {
        if raw.is_empty() || raw[0] == b'#' || raw.starts_with(b"regex:") || raw.starts_with(b"glob:") {
            continue;
        }
        match raw.windows(3).position(|w| w == b"==>") {
            Some(p) => {
                if p > 0 {
                    out.push((raw[..p].to_vec(), raw[p + 3..].to_vec()))
                }
            }
            None => out.push((raw.to_vec(), b"***REMOVED***".to_vec())),
        }
    }
    out
}

pub fn replace_suite() -> Simple {
    Simple {
        eval: Box::new(|a: &Args| {
            let req = format!("replace {} {} {}", enc(&a[0]), enc(&a[1]), enc(&a[2]));
            let b = a.clone();
            (req, guarded(move || enc(&replace_all_bytes(&b[0], &b[1], &b[2]))))
        }),
        oracle: Box::new(|a: &Args, r: &str, _m: &mut Model| {
            if r == "panic" {
                return Some("replace_all_bytes panicked".into());
            }
            let want = enc(&reference_replace(&a[0], &a[1], &a[2]));
            if want != r {
                Some(format!(
                    "replacing all non-overlapping matches of {:?} by {:?} in {:?} once, left to right, gives {} but the implementation gives {}",
                    show(&a[1]), show(&a[2]), show(&a[0]), want, r
                ))
            } else {
                None
            }
        }),
        shrinkable: vec![true, true, true],
        labels: vec!["haystack", "needle", "replacement"],
    }
}

pub fn run_replace(tier: &str, seed: u64, model: &mut Model) -> Suite {
    let (hl, n_random) = if tier == "thorough" { (8, 2_000_000) } else { (6, 150_000) };
    let mut rep = Suite::new("replace", &format!("exhaustive: all haystacks of length ≤ {hl} over {{a,b}} × all needles of length ≤ 3 over {{a,b}} × replacements {{'', 'b', 'ab', 'X'}}; plus {n_random} seeded random triples over {{a,b,c,NUL,LF,0xff}} with needles cut from the haystack (overlapping, adjacent and self-overlapping needles, empty needle/replacement). Non-trivial: the needle occurs in the haystack; distinct by the triple."));
    let def = replace_suite();
    let mut cases: Vec<(Args, bool)> = Vec::new();
    let mut hs = Vec::new();
    enumerate_strings(b"ab", hl, |s| hs.push(s.to_vec()));
    let mut ns = Vec::new();
    enumerate_strings(b"ab", 3, |s| ns.push(s.to_vec()));
    for h in &hs {
        for n in &ns {
            for r in [&b""[..], b"b", b"ab", b"X"] {
                let nt = !n.is_empty() && h.windows(n.len()).any(|w| w == &n[..]);
                cases.push((vec![h.clone(), n.clone(), r.to_vec()], nt));
            }
        }
    }
    rep.dist.insert("exhaustive-triples".into(), cases.len() as u64);
    let mut rng = Rng::new(seed ^ 0x5EED05);
    for _ in 0..n_random {
        let h = rng.bytes_from(b"aabbc\x00\n\xff", 40);
        let n = if h.len() >= 2 && rng.chance(3, 4) {
            let i = rng.below(h.len());
            let l = 1 + rng.below((h.len() - i).min(4));
            h[i..i + l].to_vec()
        } else {
            rng.bytes_from(b"abc", 3)
        };
        let r = if rng.chance(1, 4) { n[..n.len() / 2].to_vec() } else { rng.bytes_from(b"abX*", 4) };
        let nt = !n.is_empty() && h.windows(n.len()).any(|w| w == &n[..]);
        cases.push((vec![h, n, r], nt));
    }
    let mut it = cases.into_iter();
    run_suite(&def, &mut it, model, &mut rep);
    rep
}

fn rule_file_generator(rng: &mut Rng, with_regex: bool) -> Vec<u8> {
    let mut out = Vec::new();
    let nlines = rng.below(6);
    for _ in 0..nlines {
        let kind = rng.below(if with_regex { 12 } else { 8 });
        match kind {
            0 => out.extend_from_slice(b"# comment ==> x"),
            1 => {}
            2 => { out.extend(rng.bytes_from(b"abc ", 4)); }
            3 | 4 => { out.extend(rng.bytes_from(b"abc=", 4)); out.extend_from_slice(b"==>"); out.extend(rng.bytes_from(b"xy=>* $1", 4)); }
            5 => { out.extend_from_slice(b"==>"); out.extend(rng.bytes_from(b"xy", 2)); }
            6 => { out.extend(rng.bytes_from(b"ab", 3)); out.extend_from_slice(b"==>a==>b"); }
            7 => { out.extend(rng.bytes_from(b"ab\r\t \xff\x00", 5)); }
            8 => { out.extend_from_slice(b"regex:"); out.extend_from_slice(*rng.pick(&[&b"a+"[..], b"(a)(b)?", b"[ab]c", b"a|b", b"^a", b"x.y", b"\\d+", b"(?i)abc"])); if rng.chance(2, 3) { out.extend_from_slice(b"==>"); out.extend(rng.bytes_from(b"xy$12 ", 4)); } }
            9 => { out.extend_from_slice(b"glob:"); out.extend(rng.bytes_from(b"ab*?.+()|{}[]^$\\ ", 6)); if rng.chance(2, 3) { out.extend_from_slice(b"==>"); out.extend(rng.bytes_from(b"xy$1", 3)); } }
            10 => { out.extend_from_slice(b"regex:==>x"); }
            _ => { out.extend_from_slice(*rng.pick(&[&b"regex"[..], b"glob", b"regex :a", b" regex:a", b"glob:", b"Regex:a"])); }
        }
        if rng.chance(9, 10) { out.push(b'\n'); }
    }
    out
}

pub fn rules_suite() -> Simple {
    Simple {
        eval: Box::new(|a: &Args| {
            let req = format!("litrules {}", enc(&a[0]));
            let c = a[0].clone();
            (req, guarded(move || {
                let p = scratch_file("rules");
                std::fs::write(&p, &c).unwrap();
                match MessageReplacer::from_file(&p) {
                    Ok(r) => enc_pairs(&r.pairs),
                    Err(e) => format!("err:{e}"),
                }
            }))
        }),
        oracle: Box::new(|a: &Args, r: &str, _m: &mut Model| {
            let want = enc_pairs(&reference_literal_rules(&a[0]));
            if want != r { Some(format!("literal rules of the file should be {want}, implementation parsed {r}")) } else { None }
        }),
        shrinkable: vec![true],
        labels: vec!["rule_file"],
    }
}

fn rx_rules_reply(rules: &[(regex::bytes::Regex, Vec<u8>, bool)], with_glob: bool) -> String {
    if rules.is_empty() {
        return "-".into();
    }
    let _ = with_glob;
    rules.iter().map(|(re, rep, d)| format!("{}:{}:{}", enc(re.as_str().as_bytes()), enc(rep), enc_bool(*d))).collect::<Vec<_>>().join(",")
}

/// regex/glob rule lines: the pattern handed to the regex compiler, replacement, `$` flag
pub fn rxrules_suite(with_glob: bool) -> Simple {
    Simple {
        eval: Box::new(move |a: &Args| {
            let req = format!("rxrules2 {} {}", enc_bool(with_glob), enc(&a[0]));
            let c = a[0].clone();
            (req, guarded(move || {
                let p = scratch_file("rxrules");
                std::fs::write(&p, &c).unwrap();
                if with_glob {
                    match blob_regex::RegexReplacer::from_file(&p) {
                        Ok(Some(r)) => rx_rules_reply(&r.rules, true),
                        Ok(None) => "-".into(),
                        Err(_) => "err".into(),
                    }
                } else {
                    match msg_regex::RegexReplacer::from_file(&p) {
                        Ok(Some(r)) => rx_rules_reply(&r.rules, false),
                        Ok(None) => "-".into(),
                        Err(_) => "err".into(),
                    }
                }
            }))
        }),
        oracle: Box::new(|_a: &Args, _r: &str, _m: &mut Model| None),
        shrinkable: vec![true],
        labels: vec!["rule_file"],
    }
}

/// `apply_regex` of the pattern-rule engines: rules applied in file order, each replacing all its non-overlapping matches
/// once. The request compares the parsed rules with the model (as `rxrules`); the oracle then folds over those rules with
/// the regex crate itself (the parameter of the model) and the model's template expansion, and compares with what
/// `apply_regex` returns for the payload.  a[0] = rule file, a[1] = payload
pub fn rxapply_suite(with_glob: bool) -> Simple {
    fn parse(file: &[u8], with_glob: bool) -> Option<(Vec<(regex::bytes::Regex, Vec<u8>, bool)>, Box<dyn Fn(Vec<u8>) -> Vec<u8>>)> {
        let p = scratch_file("rxapply");
        std::fs::write(&p, file).unwrap();
        if with_glob {
            match blob_regex::RegexReplacer::from_file(&p) { Ok(Some(r)) => { let rules = r.rules.clone(); Some((rules, Box::new(move |d| r.apply_regex(d)))) } _ => None }
        } else {
            match msg_regex::RegexReplacer::from_file(&p) { Ok(Some(r)) => { let rules = r.rules.clone(); Some((rules, Box::new(move |d| r.apply_regex(d)))) } _ => None }
        }
    }
    Simple {
        eval: Box::new(move |a: &Args| {
            let req = format!("rxrules2 {} {}", enc_bool(with_glob), enc(&a[0]));
            let c = a[0].clone();
            (req, guarded(move || match parse(&c, with_glob) { Some((rules, _)) => rx_rules_reply(&rules, with_glob), None => "-".into() }))
        }),
        oracle: Box::new(move |a: &Args, r: &str, m: &mut Model| {
            if r == "panic" { return Some("rule parsing panicked".into()); }
            let (rules, apply) = parse(&a[0], with_glob)?;
            let payload = a[1].clone();
            let got = match std::panic::catch_unwind(std::panic::AssertUnwindSafe(|| apply(payload.clone()))) { Ok(v) => v, Err(_) => return Some("apply_regex panicked".into()) };
            let mut cur = payload.clone();
            for (re, rep, dollar) in &rules {
                let mut out: Vec<u8> = Vec::with_capacity(cur.len());
                let mut last = 0usize;
                for caps in re.captures_iter(&cur) {
                    let m0 = caps.get(0).unwrap();
                    out.extend_from_slice(&cur[last..m0.start()]);
                    if *dollar {
                        let groups: Vec<String> = (0..caps.len()).map(|i| match caps.get(i) { Some(g) => enc(g.as_bytes()), None => "none".into() }).collect();
                        let reply = m.ask(&format!("expand {} {}", enc(rep), groups.join(",")));
                        out.extend_from_slice(&crate::wire::dec(&reply).unwrap_or_default());
                    } else {
                        out.extend_from_slice(rep);
                    }
                    last = m0.end();
                }
                out.extend_from_slice(&cur[last..]);
                cur = out;
            }
            if cur != got {
                Some(format!("the pattern rules applied in file order, each replacing all its non-overlapping matches once, turn {:?} into {:?}; apply_regex returns {:?}",
                    String::from_utf8_lossy(&payload), String::from_utf8_lossy(&cur), String::from_utf8_lossy(&got)))
            } else { None }
        }),
        shrinkable: vec![false, true],
        labels: vec!["rule_file", "data"],
    }
}

fn rxapply_case(rng: &mut Rng, with_glob: bool) -> Args {
    const PATS: &[&str] = &["^$", "x*", "a+", "(a)(b)?", "[0-9]+", "^", "$", "\\bfoo\\b", "(?m)^#.*$", ".", "(?s).*", "(foo)|(bar)", "\\s+", "secret[0-9]*", "a|ab", "(?i)token"];
    const REPS: &[&str] = &["", "X", "# intentionally left blank", "$1", "<$1|$2>", "$$", "$0", "a", "aa", "$1$1", "***REMOVED***", "x$", "$9"];
    const GLOBS: &[&str] = &["*", "", "*.txt", "a?c", "se*t", "?", "foo*bar", "*a*"];
    const DATA: &[&str] = &["", "", "a", "ab", "aab\n", "foo bar foo", "# c\nx\n", "123 abc 45", "\n", "secret.txt", "secret42 token TOKEN", "abcabc", "xxx", "aaa", " \t ", "foo"];
    let mut file = String::new();
    for _ in 0..(1 + rng.below(3)) {
        if with_glob && rng.chance(1, 3) {
            file.push_str(&format!("glob:{}==>{}\n", rng.pick(GLOBS), rng.pick(&REPS[..3])));
        } else if rng.chance(1, 8) {
            file.push_str(&format!("{}==>{}\n", rng.pick(&["a", "foo", "secret"][..]), rng.pick(&REPS[..3])));      // a literal rule in between: not part of apply_regex
        } else if rng.chance(1, 10) {
            file.push_str(&format!("regex:{}\n", rng.pick(PATS)));                                                    // no ==>: the default replacement
        } else {
            file.push_str(&format!("regex:{}==>{}\n", rng.pick(PATS), rng.pick(REPS)));
        }
    }
    let mut data = rng.pick(DATA).to_string();
    if rng.chance(1, 4) { let extra: &str = *rng.pick(DATA); data.push_str(extra); }
    vec![file.into_bytes(), data.into_bytes()]
}

pub fn apply_suite() -> Simple {
    Simple {
        eval: Box::new(|a: &Args| {
            let req = format!("applylit {} {}", enc(&a[0]), enc(&a[1]));
            let b = a.clone();
            (req, guarded(move || {
                let p = scratch_file("apply-rules");
                std::fs::write(&p, &b[0]).unwrap();
                match MessageReplacer::from_file(&p) {
                    Ok(r) => enc(&r.apply(b[1].clone())),
                    Err(e) => format!("err:{e}"),
                }
            }))
        }),
        oracle: Box::new(|a: &Args, r: &str, _m: &mut Model| {
            if r == "panic" { return Some("MessageReplacer panicked".into()); }
            let mut cur = a[1].clone();
            for (n, rep) in reference_literal_rules(&a[0]) {
                cur = reference_replace(&cur, &n, &rep);
            }
            let want = enc(&cur);
            if want != r { Some(format!("literal rules applied in file order, each replacing all its matches once, give {want}; implementation gives {r}")) } else { None }
        }),
        shrinkable: vec![true, true],
        labels: vec!["rule_file", "data"],
    }
}

pub fn run_rules(tier: &str, seed: u64, model: &mut Model) -> Vec<Suite> {
    let n = if tier == "thorough" { 400_000 } else { 30_000 };
    let mut out = Vec::new();
    let mut rng = Rng::new(seed ^ 0x7A1E5);
    // literal rule parsing
    let mut rep = Suite::new("litrules", &format!("{n} seeded rule files (0–5 lines) mixing comments, blanks, bare literals, a==>b, several ==>, empty left side, CR/TAB/NUL/0xff bytes, regex:/glob: lines and near-misses, with and without a final newline. Non-trivial: at least one rule results; distinct by file content."));
    let def = rules_suite();
    let files: Vec<Vec<u8>> = (0..n).map(|_| rule_file_generator(&mut rng, true)).collect();
    let mut it = files.iter().cloned().map(|f| { let nt = !reference_literal_rules(&f).is_empty(); (vec![f], nt) });
    run_suite(&def, &mut it, model, &mut rep);
    out.push(rep);
    // regex rule parsing, blob and message variants (valid UTF-8 / valid regex by construction;
    // files on which the code reports an error are outside the model and only counted)
    for with_glob in [true, false] {
        let mut rep = Suite::new(if with_glob { "rxrules-blob" } else { "rxrules-msg" }, "the same rule files through blob_regex / msg_regex ::RegexReplacer::from_file: compiled pattern text (incl. the glob→regex translation), replacement bytes and the `$` flag. Files the code rejects (invalid UTF-8 or regex) are counted and excluded. Non-trivial: at least one regex rule results.");
        let def = rxrules_suite(with_glob);
        let mut skipped = 0u64;
        let mut cases = Vec::new();
        for f in &files {
            let (_, r) = (def.eval)(&vec![f.clone()]);
            if r == "err" { skipped += 1; continue; }
            cases.push((vec![f.clone()], r != "-"));
        }
        rep.dist.insert("rejected-by-the-code-not-compared".into(), skipped);
        let mut it = cases.into_iter();
        run_suite(&def, &mut it, model, &mut rep);
        out.push(rep);
    }
    // pattern rules applied to payloads (the fold of apply_regex; the regex crate itself is the parameter)
    for with_glob in [true, false] {
        let k = if tier == "thorough" { 40_000 } else { 4_000 };
        let mut rep = Suite::new(if with_glob { "rxapply-blob" } else { "rxapply-msg" }, &format!("{k} (rule file, payload) pairs for blob_regex / msg_regex ::RegexReplacer::apply_regex: one to three regex:/glob: rules from pools that include patterns matching the empty string (^$, x*, ^, $, glob:*, the empty glob), templates with $1 $2 $$ $0 $9, a rule without ==>, literal rules in between; payloads include the empty one, whitespace only, and texts a rule empties for the next rule. The parsed rules are compared with the model; the oracle folds over them with the regex crate and the model's template expansion and compares with apply_regex. Non-trivial: the payload changes."));
        let def = rxapply_suite(with_glob);
        let mut cases = Vec::new();
        let mut r2 = Rng::new(seed ^ if with_glob { 0xA991 } else { 0xA992 });
        for _ in 0..k {
            let a = rxapply_case(&mut r2, with_glob);
            let nt = { let p = scratch_file("rxapply-nt"); std::fs::write(&p, &a[0]).unwrap();
                if with_glob { blob_regex::RegexReplacer::from_file(&p).ok().flatten().map(|r| r.apply_regex(a[1].clone()) != a[1]).unwrap_or(false) }
                else { msg_regex::RegexReplacer::from_file(&p).ok().flatten().map(|r| r.apply_regex(a[1].clone()) != a[1]).unwrap_or(false) } };
            if a[1].is_empty() { rep.count("empty-payload"); }
            cases.push((a, nt));
        }
        let kept: Vec<Args> = cases.iter().map(|c| c.0.clone()).collect();
        let mut it = cases.into_iter();
        run_suite(&def, &mut it, model, &mut rep);
        // the oracle is the check here (the request only compares the parsed rules): evaluate it on every case
        for a in &kept {
            let (_, r) = (def.eval)(a);
            if let Some(detail) = (def.oracle)(a, &r, model) {
                if rep.oracle_failures.len() < 5 {
                    rep.oracle_failures.push(serde_json::json!({"input": crate::runner::SuiteDef::describe(&def, a), "impl": r, "property_failure": detail}));
                } else { rep.count("further-oracle-failures-not-listed"); }
            }
        }
        out.push(rep);
    }
    // apply
    let mut rep = Suite::new("applylit", &format!("{n} seeded (rule file, data) pairs: data over the rule alphabet with planted occurrences, rules whose output creates matches for later rules, overlapping literals; plus payloads of 64 KiB and 1 MiB ± 1 (the chunk and streaming thresholds of message.rs) with 2-4 overlapping rules (around the aho-corasick threshold). Non-trivial: the data changes; distinct by the pair."));
    let def = apply_suite();
    let mut cases = Vec::new();
    for _ in 0..n {
        let f = rule_file_generator(&mut rng, true);
        let mut d = rng.bytes_from(b"abc xy=>\n\x00\xff", 30);
        for (nn, _) in reference_literal_rules(&f).iter().take(2) {
            if rng.chance(2, 3) { let at = rng.below(d.len() + 1); d.splice(at..at, nn.iter().cloned()); }
        }
        let nt = { let mut cur = d.clone(); for (a, b) in reference_literal_rules(&f) { cur = reference_replace(&cur, &a, &b); } cur != d };
        cases.push((vec![f, d], nt));
    }
    // payload sizes around the constants of message.rs (STREAMING_THRESHOLD = 1 MiB, CHUNK_SIZE = 64 KiB) with rule counts around
    // AHO_CORASICK_THRESHOLD = 3, rules whose patterns overlap (one a prefix of another, listed in either order) planted throughout
    let big_sizes: &[usize] = if tier == "thorough" { &[65_535, 65_536, 65_537, 1_048_575, 1_048_576, 1_048_577, 1_300_000, 2_097_153] } else { &[65_536, 1_048_575, 1_048_576, 1_300_000] };
    for (k, &size) in big_sizes.iter().enumerate() {
        for nrules in [2usize, 3, 4] {
            let pool: [&[u8]; 5] = [b"hunter2-prod==>PROD_PW", b"hunter2==>PW", b"tok-abc==>TOK", b"abc==>A", b"-prod==>P"];
            let mut lines: Vec<&[u8]> = pool.iter().cloned().take(nrules).collect();
            if (k + nrules) % 2 == 1 { lines.reverse(); }
            let f = [lines.join(&b"\n"[..]), b"\n".to_vec()].concat();
            let mut d: Vec<u8> = Vec::with_capacity(size);
            let unit = b"filler text line without secrets 0123456789\n";
            while d.len() + unit.len() <= size { d.extend_from_slice(unit); }
            while d.len() < size { d.push(b'.'); }
            for off in [0usize, 1000, 65_530, size / 2, size.saturating_sub(40)] {
                let tok: &[u8] = [&b"hunter2-prod"[..], b"hunter2", b"tok-abc"][off % 3];
                if off + tok.len() <= d.len() { d[off..off + tok.len()].copy_from_slice(tok); }
            }
            cases.push((vec![f, d], true));
        }
    }
    let mut it = cases.into_iter();
    run_suite(&def, &mut it, model, &mut rep);
    out.push(rep);
    out
}

/// template expansion through a one-rule blob regex replacer on data the regex matches exactly once
pub fn template_suite() -> Simple {
    Simple {
        eval: Box::new(|a: &Args| {
            // a[0] = regex source, a[1] = template, a[2] = data (whole-data match)
            let re = regex::bytes::Regex::new(std::str::from_utf8(&a[0]).unwrap()).unwrap();
            let caps = re.captures(&a[2]);
            let groups: Vec<String> = match &caps {
                Some(c) => (0..c.len()).map(|i| match c.get(i) { Some(m) => enc(m.as_bytes()), None => "none".into() }).collect(),
                None => vec![],
            };
            let req = format!("expand {} {}", enc(&a[1]), if groups.is_empty() { "-".to_string() } else { groups.join(",") });
            let b = a.clone();
            (req, guarded(move || {
                let mut rule = b"regex:".to_vec();
                rule.extend_from_slice(&b[0]);
                rule.extend_from_slice(b"==>");
                rule.extend_from_slice(&b[1]);
                let p = scratch_file("tpl-rules");
                std::fs::write(&p, &rule).unwrap();
                match blob_regex::RegexReplacer::from_file(&p) {
                    Ok(Some(r)) => enc(&r.apply_regex(b[2].clone())),
                    Ok(None) => "norule".into(),
                    Err(_) => "err".into(),
                }
            }))
        }),
        oracle: Box::new(|_a: &Args, r: &str, _m: &mut Model| if r == "panic" { Some("template expansion panicked".into()) } else { None }),
        shrinkable: vec![false, true, false],
        labels: vec!["regex", "template", "data"],
    }
}

pub fn run_template(tier: &str, seed: u64, model: &mut Model) -> Suite {
    let tl = if tier == "thorough" { 6 } else { 5 };
    let mut rep = Suite::new("template", &format!("exhaustive: all templates of length 1..={tl} over {{$, 0, 1, 2, 9, x}} that contain a `$` (templates without `$` take the NoExpand path), expanded for three (regex, data) pairs in which the whole data is one match with participating and non-participating groups. Distinct by (template, pair); every case is non-trivial."));
    let _ = seed;
    let def = template_suite();
    let pairs: [(&[u8], &[u8]); 3] = [(b"^(a+)(b*)(c)?$", b"aab"), (b"^(x)(y)(z)(w)(v)(u)(t)(s)(r)(q)(p)(o)$", b"xyzwvutsrqpo"), (b"^(a)|(b)$", b"b")];
    let mut cases = Vec::new();
    enumerate_strings(b"$0129x", tl, |t| {
        if t.contains(&b'$') && !t.windows(3).any(|w| w == b"==>") {
            for (re, d) in pairs.iter() {
                cases.push((vec![re.to_vec(), t.to_vec(), d.to_vec()], true));
            }
        }
    });
    let mut it = cases.into_iter();
    run_suite(&def, &mut it, model, &mut rep);
    rep.exhaustive = true;
    rep
}
