//! C19/C20: pure parts of analysis.rs and detect.rs vs Frrs/Analyze.lean, Frrs/Detect.lean.
use crate::model::Model;
use crate::report::Suite;
use crate::rng::Rng;
use crate::runner::{guarded, run_suite};
use crate::suites::simple::{scratch_file, Args, Simple};
use crate::wire::{enc, enc_bool, enc_list, enc_opt, enc_pairs, show};
use filter_repo_rs::verif_hooks::{detect_values, draft, largest_files, looks_binary_blob, normalize_detected_value, top_n};
use filter_repo_rs::verif_hooks::MessageReplacer;
use std::collections::HashMap;

/// a[0] = limit (decimal), a[1..] = items "size:oid"
pub fn topn_suite() -> Simple {
    Simple {
        eval: Box::new(|a: &Args| {
            let limit: usize = String::from_utf8_lossy(&a[0]).parse().unwrap();
            let items: Vec<(u64, String)> = a[1..].iter().map(|it| { let s = String::from_utf8_lossy(it); let (x, y) = s.split_once(':').unwrap(); (x.parse().unwrap(), y.to_string()) }).collect();
            let req = format!("topn {} {}", limit, if items.is_empty() { "-".to_string() } else { items.iter().map(|(s, o)| format!("{}:{}", s, enc(o.as_bytes()))).collect::<Vec<_>>().join(",") });
            (req, guarded(move || {
                let r = top_n(limit, &items);
                if r.is_empty() { "-".to_string() } else { r.iter().map(|(s, o)| format!("{}:{}", s, enc(o.as_bytes()))).collect::<Vec<_>>().join(",") }
            }))
        }),
        // C19: the sizes reported are the N largest sizes, largest first
        oracle: Box::new(|a: &Args, r: &str, _m: &mut Model| {
            if r == "panic" { return Some("push_top panicked".into()); }
            let limit: usize = String::from_utf8_lossy(&a[0]).parse().unwrap();
            let mut sizes: Vec<u64> = a[1..].iter().map(|it| String::from_utf8_lossy(it).split(':').next().unwrap().parse().unwrap()).collect();
            sizes.sort_by(|x, y| y.cmp(x));
            sizes.truncate(limit);
            let got: Vec<u64> = if r == "-" { vec![] } else { r.split(',').map(|it| it.split(':').next().unwrap().parse().unwrap()).collect() };
            if got != sizes { Some(format!("top-{limit} sizes should be {:?}, implementation reports {:?}", sizes, got)) } else { None }
        }),
        shrinkable: vec![false],
        labels: vec!["limit"],
    }
}

pub fn run_analyze(tier: &str, seed: u64, model: &mut Model) -> Vec<Suite> {
    let n = if tier == "thorough" { 400_000 } else { 40_000 };
    let mut out = Vec::new();
    let mut rng = Rng::new(seed ^ 0xA11A);
    let mut rep = Suite::new("topn", &format!("{n} seeded blob lists (0–12 blobs, sizes from a small range so that ties at the cut are common, ids of four letters) × limits 0..5 through push_top in iteration order and the report order. Non-trivial: more blobs than the limit; distinct by the case."));
    let def = topn_suite();
    let mut cases = Vec::new();
    for _ in 0..n {
        let k = rng.below(13);
        let mut a: Args = vec![rng.below(6).to_string().into_bytes()];
        let mut used = std::collections::HashSet::new();
        for _ in 0..k {
            let oid: String = (0..4).map(|_| *rng.pick(b"abcd") as char).collect();
            if !used.insert(oid.clone()) { continue; }
            a.push(format!("{}:{}", rng.pick(&[0u64, 1, 2, 3, 5, 5, 7, 100, 4096]), oid).into_bytes());
        }
        let nt = a.len() - 1 > String::from_utf8_lossy(&a[0]).parse::<usize>().unwrap();
        cases.push((a, nt));
    }
    let mut it = cases.into_iter();
    run_suite(&def, &mut it, model, &mut rep);
    out.push(rep);
    // largest files: canonical comparison (sizes in report order; full table when nothing is cut)
    let mut rep = Suite::new("largestfiles", &format!("{n} seeded blob→paths maps (blobs at several paths, paths with several versions, equal sizes) through compute_largest_files: the sizes in report order, and the (path, size, versions) table when the limit does not cut. Iteration order of the Rust HashMap is arbitrary; the comparison is order-insensitive where the code is. Non-trivial: a path has more than one version."));
    let def = Simple {
        eval: Box::new(|a: &Args| {
            // a[0] = top, a[1..] = "oid:size:path,path"
            let top: usize = String::from_utf8_lossy(&a[0]).parse().unwrap();
            let mut bp: HashMap<String, Vec<String>> = HashMap::new();
            let mut sz: HashMap<String, u64> = HashMap::new();
            let mut req_items = Vec::new();
            for it in &a[1..] {
                let s = String::from_utf8_lossy(it).into_owned();
                let p: Vec<&str> = s.split(':').collect();
                let paths: Vec<String> = p[2].split(',').map(|x| x.to_string()).collect();
                bp.insert(p[0].to_string(), paths.clone());
                sz.insert(p[0].to_string(), p[1].parse().unwrap());
                req_items.push(format!("{}:{}:{}", enc(p[0].as_bytes()), p[1], paths.iter().map(|x| enc(x.as_bytes())).collect::<Vec<_>>().join(",")));
            }
            let req = format!("largestfiles {} {}", top, if req_items.is_empty() { "-".to_string() } else { req_items.join(";") });
            (req, guarded(move || {
                let r = largest_files(&bp, &sz, top);
                let sizes = r.iter().map(|f| f.1.to_string()).collect::<Vec<_>>().join(" ");
                let mut tbl: Vec<(Vec<u8>, Vec<u8>)> = r.iter().map(|f| (f.0.as_bytes().to_vec(), format!("{}/{}", f.1, f.2).into_bytes())).collect();
                tbl.sort();
                format!("sizes={} table={}", sizes, enc_pairs(&tbl))
            }))
        }),
        oracle: Box::new(|_a, r, _m| if r == "panic" { Some("compute_largest_files panicked".into()) } else { None }),
        shrinkable: vec![false],
        labels: vec!["top"],
    };
    let mut cases = Vec::new();
    for _ in 0..n / 4 {
        let nb = rng.below(6);
        // the limit never cuts inside a group of equal sizes (which member survives depends on hash order):
        // use either "no cut" or distinct sizes
        let distinct = rng.chance(1, 2);
        let mut a: Args = vec![];
        let mut items = Vec::new();
        let mut used_sizes = std::collections::HashSet::new();
        for b in 0..nb {
            let mut size = *rng.pick(&[1u64, 2, 3, 5, 8, 13, 21, 34]);
            if distinct { while !used_sizes.insert(size) { size += 100; } }
            let np = 1 + rng.below(3);
            let mut paths: Vec<String> = (0..np).map(|_| rng.pick(&["a", "b", "c/d", "e"]).to_string()).collect();
            paths.sort(); paths.dedup();
            items.push(format!("o{}:{}:{}", b, size, paths.join(",")));
        }
        // with equal sizes the table is compared only when nothing is cut
        let top = if distinct { rng.below(5) } else { if rng.chance(1, 5) { 0 } else { 50 } };
        // distinct sizes per blob are not distinct sizes per path (a path takes its max): keep "no cut" unless every path has one blob
        let single = items.iter().map(|i| i.split(':').nth(2).unwrap().split(',').count()).all(|c| c == 1);
        let top = if distinct && !single { 50 } else { top };
        a.push(top.to_string().into_bytes());
        for i in &items { a.push(i.clone().into_bytes()); }
        let nt = items.iter().any(|i| i.contains(','));
        cases.push((a, nt));
    }
    let mut it = cases.into_iter();
    run_suite(&def, &mut it, model, &mut rep);
    out.push(rep);
    out
}

pub fn normalize_suite() -> Simple {
    Simple {
        eval: Box::new(|a: &Args| {
            let b = a[0].clone();
            (format!("normdetect {}", enc(&a[0])), guarded(move || enc_opt(&normalize_detected_value(&b).map(|s| s.into_bytes()))))
        }),
        // C20 soundness: whatever is reported occurs verbatim in the matched bytes
        oracle: Box::new(|a: &Args, r: &str, _m: &mut Model| {
            if r == "panic" { return Some("normalize_detected_value panicked".into()); }
            if r == "none" { return None; }
            let v = crate::wire::dec(r)?;
            if !a[0].windows(v.len().max(1)).any(|w| w == &v[..]) { Some(format!("reported value {:?} does not occur in the matched bytes {:?}", show(&v), show(&a[0]))) } else { None }
        }),
        shrinkable: vec![true],
        labels: vec!["matched_bytes"],
    }
}

pub fn run_detect(tier: &str, seed: u64, model: &mut Model) -> Vec<Suite> {
    let n = if tier == "thorough" { 600_000 } else { 60_000 };
    let mut out = Vec::new();
    let mut rng = Rng::new(seed ^ 0xDE7EC7);
    let mut rep = Suite::new("normdetect", &format!("{n} seeded candidate byte strings: lengths around 8 and 256, quotes on either or both ends (nested), embedded whitespace, invalid UTF-8, placeholder words in mixed case, plain tokens. Non-trivial: the value is accepted; distinct by the bytes."));
    let def = normalize_suite();
    let mut cases = Vec::new();
    for _ in 0..n {
        let len = *rng.pick(&[0usize, 5, 7, 8, 9, 12, 20, 40, 255, 256, 257, 300]);
        let mut v: Vec<u8> = (0..len).map(|_| *rng.pick(b"abcXYZ019_-./+=:@")).collect();
        match rng.below(10) {
            0 => { v.insert(0, b'"'); v.push(b'"'); }
            1 => { v.insert(0, b'\''); v.push(b'\''); }
            2 => { v.insert(0, b'"'); v.insert(0, b'\''); v.push(b'"'); }
            3 => { if !v.is_empty() { let i = rng.below(v.len()); v[i] = *rng.pick(b" \t\n\r"); } }
            4 => { if !v.is_empty() { let i = rng.below(v.len()); v[i] = *rng.pick(&[0xffu8, 0xc3, 0x80]); } }
            5 => { let w = rng.pick(&[&b"Example"[..], b"SAMPLE", b"placeholder", b"ChangeMe", b"your_token", b"YOUR_KEY", b"dummy"]).to_vec(); let at = rng.below(v.len() + 1); v.splice(at..at, w); }
            6 => { v.extend_from_slice("é€".as_bytes()); }
            _ => {}
        }
        let (_, r) = (def.eval)(&vec![v.clone()]);
        cases.push((vec![v], r != "none"));
    }
    let mut it = cases.into_iter();
    run_suite(&def, &mut it, model, &mut rep);
    out.push(rep);
    // binary heuristic
    let mut rep = Suite::new("looksbinary", &format!("{} seeded payloads: empty, NUL anywhere, text with a growing share of non-ASCII bytes around the 20 % boundary, payloads longer than the 4096-byte sample. Non-trivial: classified binary.", n / 4));
    let def = Simple {
        eval: Box::new(|a: &Args| { let b = a[0].clone(); (format!("looksbinary {}", enc(&a[0])), guarded(move || enc_bool(looks_binary_blob(&b)).to_string())) }),
        oracle: Box::new(|_a, r, _m| if r == "panic" { Some("looks_binary_blob panicked".into()) } else { None }),
        shrinkable: vec![true], labels: vec!["payload"],
    };
    let mut cases = Vec::new();
    for _ in 0..n / 4 {
        let len = *rng.pick(&[0usize, 1, 4, 5, 10, 50, 100, 4095, 4096, 4097, 5000]);
        let share = rng.below(8);
        let mut v: Vec<u8> = (0..len).map(|i| if share > 0 && i % (12 - share) == 0 { *rng.pick(&[0xc3u8, 0xa9, 0x7f, 0x1b]) } else { *rng.pick(b"abc \n\t") }).collect();
        if rng.chance(1, 12) && !v.is_empty() { let i = rng.below(v.len()); v[i] = 0; }
        let (_, r) = (def.eval)(&vec![v.clone()]);
        cases.push((vec![v], r == "1"));
    }
    let mut it = cases.into_iter();
    run_suite(&def, &mut it, model, &mut rep);
    out.push(rep);
    // the whole detection step: payloads → (regex crate) → matches in scan order → model's normalise/dedup/cap
    let mut rep = Suite::new("detect", &format!("{} seeded lists of text payloads with planted tokens of custom patterns (with and without a capture group), duplicates across payloads, decoys, and lists long enough to hit the 500-value cap; the matches are computed with the regex crate in the harness and handed to the model in scan order; the value lists must agree. Non-trivial: something is detected.", n / 40));
    let def = Simple {
        eval: Box::new(|a: &Args| {
            // a[0] = custom pattern, a[1..] = payloads; only the custom pattern's matches are fed to the model,
            // so payloads are built from an alphabet on which no built-in pattern can match
            let pat = String::from_utf8_lossy(&a[0]).into_owned();
            let re = regex::bytes::Regex::new(&pat).unwrap();
            let grp = if re.captures_len() > 1 { 1 } else { 0 };
            let mut ms: Vec<Vec<u8>> = Vec::new();
            for p in &a[1..] {
                if looks_binary_blob(p) { continue; }
                for c in re.captures_iter(p) { if let Some(m) = c.get(grp) { ms.push(m.as_bytes().to_vec()); } }
            }
            let payloads: Vec<Vec<u8>> = a[1..].to_vec();
            (format!("detect {}", enc_list(&ms)), guarded(move || match detect_values(&payloads, &[pat.clone()]) {
                Ok(v) => enc_list(&v.into_iter().map(|(x, _)| x.into_bytes()).collect::<Vec<_>>()),
                Err(e) => format!("err:{e}"),
            }))
        }),
        oracle: Box::new(|a: &Args, r: &str, _m: &mut Model| {
            if r == "panic" { return Some("detection panicked".into()); }
            // soundness: every reported value occurs verbatim in some payload
            let vals = crate::wire::dec_list(r)?;
            for v in vals { if !a[1..].iter().any(|p| p.windows(v.len().max(1)).any(|w| w == &v[..])) { return Some(format!("reported value {:?} occurs in no scanned payload", show(&v))); } }
            None
        }),
        shrinkable: vec![false], labels: vec!["pattern"],
    };
    let mut cases = Vec::new();
    for k in 0..n / 40 {
        let pat: &str = *rng.pick(&[r"ZZ[0-9]{8,12}", r"key<([0-9Q]{8,20})>", r"QQ-[0-9]+"]);
        let np = if k % 50 == 0 { 60 } else { 1 + rng.below(4) };
        let mut a: Args = vec![pat.as_bytes().to_vec()];
        for _ in 0..np {
            let mut p: Vec<u8> = Vec::new();
            let ntok = if np == 60 { 12 } else { rng.below(4) };
            for _ in 0..ntok {
                p.extend(rng.bytes_from(b"qrs \n", 6));
                let digits: String = (0..8 + rng.below(4)).map(|_| *rng.pick(b"0123456789") as char).collect();
                match rng.below(4) { 0 => p.extend_from_slice(format!("ZZ{digits}").as_bytes()), 1 => p.extend_from_slice(format!("key<{digits}>").as_bytes()),
                    2 => p.extend_from_slice(format!("QQ-{digits}").as_bytes()), _ => p.extend_from_slice(b"ZZ12345678") }
            }
            p.extend(rng.bytes_from(b"qrs \n", 6));
            a.push(p);
        }
        let (_, r) = (def.eval)(&a);
        cases.push((a, r != "-"));
    }
    let mut it = cases.into_iter();
    run_suite(&def, &mut it, model, &mut rep);
    out.push(rep);
    // closing the loop: the draft file read back by the --replace-text parser yields a rule for every value
    let mut rep = Suite::new("draft", &format!("{} seeded value lists (plain tokens; values beginning with #, containing ==>, looking like regex:/glob: rules) written by write_detection_draft and read back by MessageReplacer::from_file and blob_regex::RegexReplacer::from_file, then applied to a text containing every value: no value may survive. Compared with the model's needsEscape/draftRule. Non-trivial: a value needs escaping.", n / 10));
    let def = Simple {
        eval: Box::new(|a: &Args| {
            let vals: Vec<String> = a.iter().map(|v| String::from_utf8_lossy(v).into_owned()).collect();
            // model side: which values need escaping
            let req = format!("needsescape {}", enc(a.first().map(|x| x.as_slice()).unwrap_or(b"")));
            let first = vals.first().cloned().unwrap_or_default();
            (req, guarded(move || {
                let dir = scratch_file("draftdir");
                let _ = std::fs::create_dir_all(&dir);
                let d = draft(&dir, &[first.clone()]).unwrap();
                let line = d.split(|&b| b == b'\n').rev().find(|l| !l.is_empty()).unwrap_or(b"").to_vec();
                enc_bool(line.starts_with(b"regex:")).to_string()
            }))
        }),
        // C20 loop: after --replace-text with the generated file none of the values occurs
        oracle: Box::new(|a: &Args, _r: &str, _m: &mut Model| {
            let vals: Vec<String> = a.iter().map(|v| String::from_utf8_lossy(v).into_owned()).collect();
            let dir = scratch_file("draftdir2");
            let _ = std::fs::create_dir_all(&dir);
            let _ = draft(&dir, &vals).ok()?;
            let path = dir.join("detected-secrets.txt");
            let lit = MessageReplacer::from_file(&path).ok()?;
            let rx = filter_repo_rs::verif_hooks::blob_regex::RegexReplacer::from_file(&path).ok()?;
            let mut text: Vec<u8> = Vec::new();
            for v in &vals { text.extend_from_slice(b"pre "); text.extend_from_slice(v.as_bytes()); text.extend_from_slice(b" post\n"); }
            let mut out = lit.apply(text);
            if let Some(rx) = rx { out = rx.apply_regex(out); }
            for v in &vals { if out.windows(v.len().max(1)).any(|w| w == v.as_bytes()) { return Some(format!("value {:?} survives --replace-text with the generated file", v)); } }
            None
        }),
        shrinkable: vec![true], labels: vec!["value"],
    };
    let mut cases = Vec::new();
    for _ in 0..n / 10 {
        let mut v: Vec<u8> = rng.bytes_from(b"abcXYZ0189_-./+:@", 20);
        while v.len() < 8 { v.push(b'k'); }
        match rng.below(8) { 0 => v.insert(0, b'#'), 1 => { let at = rng.below(v.len()); v.splice(at..at, b"==>".iter().cloned()); }
            2 => { v.splice(0..0, b"regex:".iter().cloned()); } 3 => { v.splice(0..0, b"glob:".iter().cloned()); } 4 => { v.push(b'='); v.push(b'='); } _ => {} }
        let nt = v[0] == b'#' || v.windows(3).any(|w| w == b"==>") || v.starts_with(b"regex:") || v.starts_with(b"glob:");
        cases.push((vec![v], nt));
    }
    // every case also runs the loop oracle (not only on disagreement)
    let mut loop_failures = 0u64;
    let mut m2 = Model::spawn("/verif/lean/.lake/build/bin/frrs-model").ok();
    for (c, _) in &cases {
        if let Some(m) = m2.as_mut() { if let Some(f) = (def.oracle)(c, "", m) { loop_failures += 1; if rep.oracle_failures.len() < 3 { rep.oracle_failures.push(serde_json::json!({"input": {"args_hex": c.iter().map(|x| enc(x)).collect::<Vec<_>>()}, "impl": "", "property_failure": f})); } } }
    }
    rep.dist.insert("loop-oracle-failures".into(), loop_failures);
    let mut it = cases.into_iter();
    run_suite(&def, &mut it, model, &mut rep);
    out.push(rep);
    out
}
