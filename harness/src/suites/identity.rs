//! C04: author/committer line rewriters vs Frrs/Identity.lean.
use crate::model::Model;
use crate::report::Suite;
use crate::rng::Rng;
use crate::runner::{guarded, run_suite};
use crate::suites::simple::{Args, Simple};
use crate::wire::{enc, show};
use filter_repo_rs::verif_hooks::{
    rewrite_author_line, rewrite_email_line, rewrite_mailmap_line, rewrite_timestamp_line, AuthorRewriter, MailmapRewriter,
};
use filter_repo_rs::Options;
use std::io::Cursor;

fn opt_i64(b: &[u8]) -> Option<i64> {
    if b.is_empty() { None } else { std::str::from_utf8(b).ok()?.parse().ok() }
}

/// a[0] = shift ("" = none), a[1] = set ("" = none), a[2] = line
pub fn timestamp_suite() -> Simple {
    Simple {
        eval: Box::new(|a: &Args| {
            let f = |b: &[u8]| if b.is_empty() { "none".to_string() } else { String::from_utf8_lossy(b).into_owned() };
            let req = format!("timestamp {} {} {}", f(&a[0]), f(&a[1]), enc(&a[2]));
            let b = a.clone();
            (req, guarded(move || {
                let mut o = Options::default();
                o.date_shift = opt_i64(&b[0]);
                o.date_set = opt_i64(&b[1]);
                enc(&rewrite_timestamp_line(&b[2], &o))
            }))
        }),
        // documented transformation on a well-formed identity line: timestamp shifted (never below
        // the epoch) or set, everything else — keyword, name, e-mail, timezone — byte-identical
        oracle: Box::new(|a: &Args, r: &str, _m: &mut Model| {
            if r == "panic" { return Some("rewrite_timestamp_line panicked".into()); }
            let line = &a[2];
            let s = std::str::from_utf8(line).ok()?;
            let re = regex::Regex::new(r"^(author|committer) ([^<>\n]*<[^<>\n]*>) (-?\d{1,18}) ([+-]\d{4})\n$").unwrap();
            let c = re.captures(s)?;
            let ts: i64 = c[3].parse().ok()?;
            let new = match (opt_i64(&a[1]), opt_i64(&a[0])) {
                (Some(set), _) => set,
                (None, Some(sh)) => ts.saturating_add(sh).max(0),
                (None, None) => ts,
            };
            let want = if opt_i64(&a[0]).is_none() && opt_i64(&a[1]).is_none() { line.clone() } else {
                format!("{} {} {} {}\n", &c[1], &c[2], new, &c[4]).into_bytes()
            };
            if enc(&want) != r { Some(format!("line {:?}: documented result {:?}, implementation {}", s, show(&want), r)) } else { None }
        }),
        shrinkable: vec![false, false, true],
        labels: vec!["date_shift", "date_set", "line"],
    }
}

fn identity_line(rng: &mut Rng) -> Vec<u8> {
    let kw = *rng.pick(&[&b"author "[..], b"committer ", b"author ", b"committer ", b"tagger ", b"Author ", b"author"]);
    let name = rng.pick(&[&b"A U Thor"[..], b"J\xc3\xb6rg \xe2\x80\x83M", b"", b"a17 >x", b"N<o", b"  pad  ", b"\xff\xfe", b"author committer", b"Al 17"]).to_vec();
    let email = rng.pick(&[&b"a@example.com"[..], b"", b"a17@e", b"x y@z", b"\xc3\xa9@e", b"old@example.com", b"OLD@example.com"]).to_vec();
    let ts = rng.pick(&[&b"1700000017"[..], b"0", b"1000", b"-5", b"+7", b"9223372036854775807", b"9223372036854775808", b"12x", b"", b"1.5", b"007"]).to_vec();
    let tz = rng.pick(&[&b"+0100"[..], b"-0830", b"+0000", b"", b"UTC", b"+01 00", b"-0000", b"+1400", b"-1200", b"+0530", b"-0001", b"+9999", b"-0830", b"+0100"]).to_vec();
    let mut l = kw.to_vec();
    l.extend(name);
    if rng.chance(9, 10) { l.extend_from_slice(b" <"); } else { l.extend_from_slice(b"<"); }
    l.extend(email);
    if rng.chance(9, 10) { l.push(b'>'); }
    l.extend_from_slice(*rng.pick(&[&b" "[..], b" ", b" ", b"  ", b"\t", b"", b"\xc2\xa0", b" \xe2\x80\x83"]));
    l.extend(ts);
    l.extend_from_slice(*rng.pick(&[&b" "[..], b" ", b"  ", b"\t", b""]));
    l.extend(tz);
    if rng.chance(1, 10) { l.extend_from_slice(b" extra"); }
    if rng.chance(9, 10) { l.push(b'\n'); }
    l
}

pub fn run_timestamp(tier: &str, seed: u64, model: &mut Model) -> Suite {
    let n = if tier == "thorough" { 1_000_000 } else { 80_000 };
    let mut rep = Suite::new("timestamp", &format!("{n} seeded identity lines (author/committer/other keywords; names with non-ASCII, '<', '>', invalid UTF-8; timestamps incl. negative, signed, i64 limits, overflow, garbage; timezones; odd whitespace incl. Unicode spaces; missing pieces) × date options (shift ±, set, none, extreme shifts). Non-trivial: a date option is set and the line is a well-formed identity line; distinct by (options, line)."));
    let def = timestamp_suite();
    let mut rng = Rng::new(seed ^ 0x7157);
    let shifts: [&[u8]; 9] = [b"", b"-3600", b"3600", b"-2000000000", b"9223372036854775807", b"-9223372036854775808", b"0", b"86400", b"-1"];
    let sets: [&[u8]; 5] = [b"", b"", b"", b"1234567890", b"0"];
    let well = regex::bytes::Regex::new(r"^(author|committer) [^<>\n]*<[^<>\n]*> -?\d{1,18} [+-]\d{4}\n$").unwrap();
    let mut cases = Vec::new();
    for _ in 0..n {
        let line = identity_line(&mut rng);
        let sh = rng.pick(&shifts).to_vec();
        let st = rng.pick(&sets).to_vec();
        let nt = (!sh.is_empty() || !st.is_empty()) && well.is_match(&line);
        cases.push((vec![sh, st, line], nt));
    }
    let mut it = cases.into_iter();
    run_suite(&def, &mut it, model, &mut rep);
    rep
}

fn author_rules(rng: &mut Rng) -> Vec<u8> {
    let mut out = Vec::new();
    for _ in 0..rng.below(5) {
        match rng.below(8) {
            0 => out.extend_from_slice(b"# c"),
            1 => {}
            2 => out.extend_from_slice(b"nopattern"),
            3 => out.extend_from_slice(b"  ==> x"),
            _ => {
                out.extend_from_slice(*rng.pick(&[&b"17"[..], b"author", b"A U Thor", b"a", b"ab", b"abc", b"bc", b"@example.com", b"old@example.com", b" a ", b"\xc3\xa9", b"Thor", b"U Thor", b"e"]));
                out.extend_from_slice(*rng.pick(&[&b"==>"[..], b" ==> ", b"==> "]));
                out.extend_from_slice(*rng.pick(&[&b"99"[..], b"writer", b"", b"X Y", b"new@e", b"a", b"==>z"]));
            }
        }
        out.extend_from_slice(*rng.pick(&[&b"\n"[..], b"\n", b"\r\n", b""]));
    }
    if rng.chance(1, 40) { out.push(0xff); }
    out
}

fn author_like(kind: &'static str) -> Simple {
    Simple {
        eval: Box::new(move |a: &Args| {
            let req = format!("{}2 {} {}", kind, enc(&a[0]), enc(&a[1]));
            let b = a.clone();
            (req, guarded(move || match AuthorRewriter::from_reader(Cursor::new(b[0].clone())) {
                Err(_) => "err".to_string(),
                Ok(rw) => enc(&match kind {
                    "authorline" => rewrite_author_line(&b[1], Some(&rw)),
                    "emailline" => rewrite_email_line(&b[1], Some(&rw)),
                    _ => rw.rewrite(&b[1]),
                }),
            }))
        }),
        // C04: with identity rules the keyword and everything after the closing '>' stay byte-identical
        oracle: Box::new(move |a: &Args, r: &str, _m: &mut Model| {
            if r == "panic" { return Some(format!("{kind} panicked")); }
            if kind == "acreplace" || r == "err" { return None; }
            let out = crate::wire::dec(r)?;
            let line = &a[1];
            let sp = line.iter().position(|&b| b == b' ')?;
            let gt = line.iter().rposition(|&b| b == b'>')?;
            if gt < sp { return None; }
            if !out.starts_with(&line[..=sp]) { return Some(format!("the header keyword of {:?} was rewritten: {:?}", show(line), show(&out))); }
            if !out.ends_with(&line[gt..]) { return Some(format!("timestamp/timezone of {:?} changed: {:?}", show(line), show(&out))); }
            None
        }),
        shrinkable: vec![true, true],
        labels: vec!["rule_file", "line"],
    }
}

pub fn run_authors(tier: &str, seed: u64, model: &mut Model) -> Vec<Suite> {
    let n = if tier == "thorough" { 400_000 } else { 40_000 };
    let mut out = Vec::new();
    for kind in ["authorline", "emailline", "acreplace"] {
        let mut rng = Rng::new(seed ^ 0xA07 ^ kind.len() as u64);
        let mut rep = Suite::new(kind, &format!("{n} seeded (rule file, text) pairs through AuthorRewriter::from_reader and {kind}: rules with overlapping and nested patterns (earliest-end match semantics), patterns occurring in the keyword or the timestamp, trimmed/blank/comment/invalid lines, CRLF, invalid UTF-8. Non-trivial: the text changes; distinct by the pair."));
        let def = author_like(kind);
        let mut cases = Vec::new();
        for _ in 0..n {
            let f = author_rules(&mut rng);
            let t = if kind == "acreplace" { rng.bytes_from(b"abce17 ", 12) } else { identity_line(&mut rng) };
            let (_, r) = (def.eval)(&vec![f.clone(), t.clone()]);
            let nt = r != enc(&t) && r != "err";
            cases.push((vec![f, t], nt));
        }
        let mut it = cases.into_iter();
        run_suite(&def, &mut it, model, &mut rep);
        out.push(rep);
    }
    out
}

fn mailmap_file(rng: &mut Rng) -> Vec<u8> {
    let mut out = Vec::new();
    for _ in 0..rng.below(4) {
        let name = *rng.pick(&[&b"New Name"[..], b"", b"N", b"  Sp  ", b"J\xc3\xb6rg"]);
        let new = *rng.pick(&[&b"new@example.com"[..], b"n@e", b" ", b"a b"]);
        let old = *rng.pick(&[&b"old@example.com"[..], b"a@example.com", b"a17@e", b"OLD@example.com", b"", b"x y@z"]);
        match rng.below(8) {
            0 => out.extend_from_slice(b"# comment"),
            1 => { out.extend_from_slice(b"<"); out.extend_from_slice(new); out.extend_from_slice(b"> <"); out.extend_from_slice(old); out.extend_from_slice(b">"); }
            2 | 3 => { out.extend_from_slice(name); out.extend_from_slice(b" <"); out.extend_from_slice(new); out.extend_from_slice(b"> <"); out.extend_from_slice(old); out.extend_from_slice(b">"); }
            4 => { out.extend_from_slice(name); out.extend_from_slice(b" <"); out.extend_from_slice(new); out.extend_from_slice(b"> Old Name <"); out.extend_from_slice(old); out.extend_from_slice(b">"); }
            5 => { out.extend_from_slice(name); out.extend_from_slice(b"<"); out.extend_from_slice(new); out.extend_from_slice(b"><"); out.extend_from_slice(old); out.extend_from_slice(b">"); }
            6 => { out.extend_from_slice(name); out.extend_from_slice(b" <"); out.extend_from_slice(new); out.extend_from_slice(b">  Old<"); out.extend_from_slice(old); out.extend_from_slice(b"> trailing"); }
            _ => { out.extend(rng.bytes_from(b"<> ab\t", 8)); }
        }
        out.extend_from_slice(*rng.pick(&[&b"\n"[..], b"\n", b"\r\n", b""]));
    }
    out
}

pub fn mailmap_suite() -> Simple {
    Simple {
        eval: Box::new(|a: &Args| {
            let req = format!("mailmapline2 {} {}", enc(&a[0]), enc(&a[1]));
            let b = a.clone();
            (req, guarded(move || match MailmapRewriter::from_reader(Cursor::new(b[0].clone())) {
                Err(_) => "err".to_string(),
                Ok(rw) => enc(&rewrite_mailmap_line(&b[1], Some(&rw))),
            }))
        }),
        oracle: Box::new(|_a: &Args, r: &str, _m: &mut Model| if r == "panic" { Some("mailmap rewriting panicked".into()) } else { None }),
        shrinkable: vec![true, true],
        labels: vec!["mailmap_file", "line"],
    }
}

pub fn run_mailmap(tier: &str, seed: u64, model: &mut Model) -> Suite {
    let n = if tier == "thorough" { 400_000 } else { 40_000 };
    let mut rep = Suite::new("mailmap", &format!("{n} seeded (mailmap file, identity line) pairs: the four documented mailmap line forms, malformed forms, several rules for one e-mail (first wins), e-mail case differences, name-less rules. Non-trivial: the line changes; distinct by the pair."));
    let def = mailmap_suite();
    let mut rng = Rng::new(seed ^ 0x3A17);
    let mut cases = Vec::new();
    for _ in 0..n {
        let f = mailmap_file(&mut rng);
        let t = identity_line(&mut rng);
        let (_, r) = (def.eval)(&vec![f.clone(), t.clone()]);
        let nt = r != enc(&t) && r != "err";
        cases.push((vec![f, t], nt));
    }
    let mut it = cases.into_iter();
    run_suite(&def, &mut it, model, &mut rep);
    rep
}
