//! A suite over a list of byte-string arguments, defined by closures.
use crate::model::Model;
use crate::runner::{shrink_bytes, SuiteDef};
use crate::wire::{dec, enc, show};
use serde_json::{json, Value};

pub type Args = Vec<Vec<u8>>;

pub struct Simple {
    pub eval: Box<dyn Fn(&Args) -> (String, String)>,
    pub oracle: Box<dyn Fn(&Args, &str, &mut Model) -> Option<String>>,
    /// which arguments may be shrunk (others, e.g. flags, are kept)
    pub shrinkable: Vec<bool>,
    pub labels: Vec<&'static str>,
}

impl SuiteDef for Simple {
    type In = Args;
    fn eval(&self, a: &Args) -> (String, String) {
        (self.eval)(a)
    }
    fn shrink(&self, a: &Args) -> Vec<Args> {
        let mut out = Vec::new();
        for (i, arg) in a.iter().enumerate() {
            if !self.shrinkable.get(i).copied().unwrap_or(true) {
                continue;
            }
            for s in shrink_bytes(arg) {
                let mut b = a.clone();
                b[i] = s;
                out.push(b);
            }
        }
        out
    }
    fn oracle(&self, a: &Args, r: &str, m: &mut Model) -> Option<String> {
        (self.oracle)(a, r, m)
    }
    fn describe(&self, a: &Args) -> Value {
        let mut o = serde_json::Map::new();
        o.insert("args_hex".into(), json!(a.iter().map(|x| enc(x)).collect::<Vec<_>>()));
        for (i, x) in a.iter().enumerate() {
            let l = self.labels.get(i).copied().unwrap_or("arg");
            o.insert(l.to_string(), json!(show(x)));
        }
        Value::Object(o)
    }
    fn fingerprint(&self, a: &Args) -> Vec<u8> {
        let mut v = Vec::new();
        for x in a {
            v.extend_from_slice(x);
            v.push(0xfe);
        }
        v
    }
    fn parse(&self, v: &Value) -> Option<Args> {
        v.get("args_hex")?.as_array()?.iter().map(|x| dec(x.as_str()?)).collect()
    }
}

/// a scratch file path private to this process (rule files are passed to the code by path)
pub fn scratch_file(tag: &str) -> std::path::PathBuf {
    let dir = std::env::temp_dir().join(format!("frrs-harness-{}", std::process::id()));
    let _ = std::fs::create_dir_all(&dir);
    dir.join(tag)
}

pub fn cleanup_scratch() {
    let dir = std::env::temp_dir().join(format!("frrs-harness-{}", std::process::id()));
    let _ = std::fs::remove_dir_all(dir);
}
