//! C12: the pre-flight's freshness formula and unpushed-branch check vs Frrs/Sanity.lean.
use crate::model::Model;
use crate::report::Suite;
use crate::rng::Rng;
use crate::runner::{guarded, run_suite, SuiteDef};
use crate::wire::{dec_pairs, enc_bool, enc_list, enc_pairs};
use filter_repo_rs::verif_hooks::{freshly_packed, unpushed};
use serde_json::{json, Value};
use std::collections::HashMap;

pub struct Fresh;
impl SuiteDef for Fresh {
    type In = (usize, usize, usize);
    fn eval(&self, &(r, p, l): &Self::In) -> (String, String) {
        (format!("freshly {r} {p} {l}"), guarded(move || enc_bool(freshly_packed(r, p, l)).to_string()))
    }
    fn shrink(&self, _: &Self::In) -> Vec<Self::In> { vec![] }
    /// the documented rule (no replace refs): one pack and nothing loose, or no pack and < 100 loose objects
    fn oracle(&self, &(r, p, l): &Self::In, reply: &str, _m: &mut Model) -> Option<String> {
        if r != 0 { return None; }
        let want = (p == 1 && l == 0) || (p == 0 && l < 100);
        if reply != enc_bool(want) { Some(format!("packs={p} loose={l}: documented freshness {want}, implementation {reply}")) } else { None }
    }
    fn describe(&self, &(r, p, l): &Self::In) -> Value { json!({"replace_refs": r, "packs": p, "loose": l}) }
    fn fingerprint(&self, &(r, p, l): &Self::In) -> Vec<u8> { format!("{r},{p},{l}").into_bytes() }
    fn parse(&self, v: &Value) -> Option<Self::In> { Some((v["replace_refs"].as_u64()? as usize, v["packs"].as_u64()? as usize, v["loose"].as_u64()? as usize)) }
}

#[derive(Clone)]
pub struct UnCase { bare: bool, locals: Vec<(Vec<u8>, Vec<u8>)>, origins: Vec<(Vec<u8>, Vec<u8>)>, others: Vec<(Vec<u8>, Vec<u8>)> }
pub struct Unpushed;
impl SuiteDef for Unpushed {
    type In = UnCase;
    fn eval(&self, c: &UnCase) -> (String, String) {
        let req = format!("unpushed {} {} {}", enc_bool(c.bare), enc_pairs(&c.locals), enc_pairs(&c.origins));
        let c = c.clone();
        (req, guarded(move || {
            let mut refs: HashMap<String, String> = HashMap::new();
            for (n, id) in &c.locals { refs.insert(format!("refs/heads/{}", String::from_utf8_lossy(n)), String::from_utf8_lossy(id).into_owned()); }
            for (n, id) in &c.origins { refs.insert(format!("refs/remotes/origin/{}", String::from_utf8_lossy(n)), String::from_utf8_lossy(id).into_owned()); }
            for (n, id) in &c.others { refs.insert(String::from_utf8_lossy(n).into_owned(), String::from_utf8_lossy(id).into_owned()); }
            let mut v: Vec<Vec<u8>> = unpushed(refs, c.bare).into_iter().map(|b| b.trim_start_matches("refs/heads/").as_bytes().to_vec()).collect();
            v.sort();
            enc_list(&v)
        }))
    }
    fn shrink(&self, c: &UnCase) -> Vec<UnCase> {
        let mut out = Vec::new();
        for i in 0..c.locals.len() { let mut d = c.clone(); d.locals.remove(i); out.push(d); }
        for i in 0..c.origins.len() { let mut d = c.clone(); d.origins.remove(i); out.push(d); }
        out
    }
    fn oracle(&self, c: &UnCase, reply: &str, _m: &mut Model) -> Option<String> {
        // documented: a local branch that differs from, or is missing on, origin is refused (non-bare, when origin has branches)
        let mut want: Vec<Vec<u8>> = Vec::new();
        if !c.bare && !c.origins.is_empty() {
            for (n, id) in &c.locals {
                match c.origins.iter().find(|(o, _)| o == n) { Some((_, oid)) if oid == id => {}, _ => want.push(n.clone()) }
            }
        }
        want.sort();
        if enc_list(&want) != reply { Some(format!("unpushed branches should be {}, implementation says {}", enc_list(&want), reply)) } else { None }
    }
    fn describe(&self, c: &UnCase) -> Value { json!({"bare": c.bare, "locals": enc_pairs(&c.locals), "origins": enc_pairs(&c.origins), "others": enc_pairs(&c.others)}) }
    fn fingerprint(&self, c: &UnCase) -> Vec<u8> { self.describe(c).to_string().into_bytes() }
    fn parse(&self, v: &Value) -> Option<UnCase> {
        Some(UnCase { bare: v["bare"].as_bool()?, locals: dec_pairs(v["locals"].as_str()?)?, origins: dec_pairs(v["origins"].as_str()?)?, others: dec_pairs(v["others"].as_str()?)? })
    }
}

pub fn run(tier: &str, seed: u64, model: &mut Model) -> Vec<Suite> {
    let mut out = Vec::new();
    let mut rep = Suite::new("freshness", "exhaustive: replace refs 0..3 × packs 0..3 × loose objects 0..205 through the pre-flight's freshness function. Non-trivial: every row (the boundary rows 99/100 and packs 0/1/2 are included).");
    let mut cases = Vec::new();
    for r in 0..4 { for p in 0..4 { for l in 0..206 { cases.push(((r, p, l), true)); } } }
    let mut it = cases.into_iter();
    run_suite(&Fresh, &mut it, model, &mut rep);
    rep.exhaustive = true;
    out.push(rep);
    let n = if tier == "thorough" { 400_000 } else { 40_000 };
    let mut rep = Suite::new("unpushed", &format!("{n} seeded ref maps: 0–4 local branches and 0–4 origin branches over four names and three ids (equal, differing, missing on either side), origin/HEAD, refs outside heads/remotes, bare and non-bare. Non-trivial: some branch is reported; distinct by the map."));
    let mut rng = Rng::new(seed ^ 0x5A17);
    let names: [&[u8]; 4] = [b"main", b"dev", b"topic", b"rel/1"];
    let ids: [&[u8]; 3] = [b"aaaa", b"bbbb", b"cccc"];
    let mut cases = Vec::new();
    for _ in 0..n {
        let mut c = UnCase { bare: rng.chance(1, 6), locals: vec![], origins: vec![], others: vec![] };
        for nm in names.iter() { if rng.chance(1, 2) { c.locals.push((nm.to_vec(), rng.pick(&ids).to_vec())); } }
        for nm in names.iter() { if rng.chance(1, 2) { c.origins.push((nm.to_vec(), rng.pick(&ids).to_vec())); } }
        if rng.chance(1, 3) { c.origins.push((b"HEAD".to_vec(), b"aaaa".to_vec())); }
        if rng.chance(1, 3) { c.others.push((b"refs/tags/v1".to_vec(), b"aaaa".to_vec())); c.others.push((b"refs/remotes/upstream/main".to_vec(), b"bbbb".to_vec())); }
        let (_, r) = Unpushed.eval(&c);
        cases.push((c, r != "-"));
    }
    let mut it = cases.into_iter();
    run_suite(&Unpushed, &mut it, model, &mut rep);
    out.push(rep);
    out
}
