pub mod clipath;
pub mod codec;
pub mod glob;
pub mod lines;
pub mod identity;
pub mod message;
pub mod simple;
pub mod commit;
