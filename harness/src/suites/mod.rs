pub mod clipath;
pub mod codec;
pub mod glob;
pub mod lines;
