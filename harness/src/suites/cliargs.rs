//! The command line as a whole: opts.rs `parse_args` vs Frrs/Cli.lean `parseArgs` (C07 clean-up default, C11 dry run,
//! C16 selectors are normalised, and the glue that carries every option value into `Options`), and for the accepted lines
//! the command lines of the exporter and the importer: pipes.rs `build_fast_export_cmd` / `build_fast_import_cmd` vs
//! Frrs/Pipes.lean `exportCmd` / `importCmd`.
//! `parse_args` reads `std::env::args`, probes git and ends the process on refused values, so every case runs the real
//! function in a child process: the harness binary `optsprobe`, whose own arguments are the tool's command line, started in
//! an empty directory with the debug / stage-3 / config environment variables removed.
use crate::model::Model;
use crate::report::Suite;
use crate::rng::Rng;
use crate::runner::run_suite;
use crate::suites::simple::{Args, Simple};
use crate::wire::{dec, dec_list, enc_list};
use regex::bytes::Regex;

fn probe_dir() -> std::path::PathBuf {
    let d = std::env::temp_dir().join(format!("frrs-optsprobe-{}", std::process::id()));
    let _ = std::fs::create_dir_all(&d);
    d
}

fn run_probe(argv: &Args) -> String {
    let exe = std::env::current_exe().expect("current exe");
    let probe = exe.parent().expect("exe dir").join("optsprobe");
    let mut cmd = std::process::Command::new(probe);
    for a in argv {
        cmd.arg(String::from_utf8_lossy(a).into_owned());
    }
    cmd.current_dir(probe_dir())
        .env_remove("FRRS_DEBUG")
        .env_remove("FILTER_REPO_RS_CONFIG")
        .env_remove("FRRS_STAGE3_DISABLE_LEGACY_CLEANUP")
        .env_remove("FRRS_STAGE3_DISABLE_LEGACY_ANALYZE_FLAGS")
        .stderr(std::process::Stdio::null());
    match cmd.output() {
        Ok(o) => {
            let out = String::from_utf8_lossy(&o.stdout);
            let last = out.lines().rev().find(|l| l.starts_with("FRRS-OPTS ")).map(|l| l["FRRS-OPTS ".len()..].to_string());
            match (o.status.code(), last) {
                (Some(0), Some(l)) => l,
                (Some(0), None) => "exit0".to_string(),
                (Some(2), _) => "exit2".to_string(),
                (Some(101), _) => "panic".to_string(),
                (c, _) => format!("status-{c:?}"),
            }
        }
        Err(e) => format!("spawn-failed-{e}"),
    }
}

static TALLY: std::sync::Mutex<Vec<(String, u64)>> = std::sync::Mutex::new(Vec::new());
fn tally(key: String) {
    let mut t = TALLY.lock().unwrap();
    if let Some(e) = t.iter_mut().find(|e| e.0 == key) { e.1 += 1; } else { t.push((key, 1)); }
}

fn section<'a>(reply: &'a str, key: &str) -> Option<&'a str> {
    reply.split('|').skip(1).find_map(|kv| kv.strip_prefix(key).and_then(|r| r.strip_prefix('=')))
}

fn field<'a>(reply: &'a str, key: &str) -> Option<&'a str> {
    reply.strip_prefix("ok ")?.split('|').next()?.split(';').find_map(|kv| kv.strip_prefix(key).and_then(|r| r.strip_prefix('=')))
}

pub fn suite() -> Simple {
    Simple {
        eval: Box::new(|argv: &Args| {
            // the parameter of the model: which of the words the regex crate refuses as a pattern
            let mut bad: Vec<Vec<u8>> = Vec::new();
            for a in argv {
                let refused = match std::str::from_utf8(a) { Ok(s) => regex::bytes::Regex::new(s).is_err(), Err(_) => true };
                if refused && !bad.contains(a) { bad.push(a.clone()); }
            }
            let reply = run_probe(argv);
            tally(format!("outcome-{}", reply.split(' ').next().unwrap_or("")));
            tally(format!("words-{}", argv.len().min(9)));
            if section(&reply, "valid") == Some("0") { tally("accepted-line-refused-by-validate_options".into()); }
            match section(&reply, "export") {
                Some("err") => tally("exporter-refused".into()),
                Some(e) => {
                    let l = dec_list(e).unwrap_or_default();
                    if l.iter().any(|a| a == b"--no-data") { tally("exporter-with-no-data".into()); }
                    if l.first().is_some_and(|a| a == b"cat") { tally("exporter-replaced-by-a-stream-file".into()); }
                }
                None => {}
            }
            if let Some(c) = field(&reply, "cleanup") { tally(format!("cleanup-{c}")); }
            for (k, label) in [("dry", "dry-run"), ("partial", "partial"), ("debug", "debug-mode"), ("analyze", "analyze")] {
                if field(&reply, k) == Some("1") { tally(format!("ok-with-{label}")); }
            }
            for k in ["paths", "globs", "renames", "regexes"] {
                if field(&reply, k).is_some_and(|v| v != "-") { tally(format!("ok-with-{k}")); }
            }
            (format!("cliargs {} {}", enc_list(&bad), enc_list(argv)), reply)
        }),
        // what the properties say about the options a run is given, evaluated on the implementation's own answer
        oracle: Box::new(|argv: &Args, r: &str, _m: &mut Model| {
            if r == "panic" { return Some("parse_args panicked".into()); }
            if !r.starts_with("ok ") { return None; }
            let shown = argv.iter().map(|a| String::from_utf8_lossy(a).into_owned()).collect::<Vec<_>>().join(" ");
            // C07: a run that is neither partial nor a dry run cleans up afterwards
            if field(r, "partial") == Some("0") && field(r, "dry") == Some("0") && field(r, "cleanup") == Some("none") {
                return Some(format!("[C07] `{shown}`: a full, real run is given no clean-up (reflog expiry and gc would be skipped)"));
            }
            // C16: selectors were normalised: no backslash, not absolute, no `.`/`..` segment
            for key in ["paths", "globs"] {
                for p in field(r, key).and_then(dec_list).unwrap_or_default() {
                    let segs: Vec<&[u8]> = p.split(|b| *b == b'/').collect();
                    if p.contains(&b'\\') || p.first() == Some(&b'/') || segs.iter().any(|s| *s == b"." || *s == b"..") {
                        return Some(format!("[C16] `{shown}`: selector {:?} reaches the filter although it is absolute, has a `.`/`..` segment or a backslash", String::from_utf8_lossy(&p)));
                    }
                }
            }
            // C11: a line that starts with --dry-run is a dry run
            if argv.first().map(|a| a.as_slice()) == Some(b"--dry-run") && field(r, "dry") != Some("1") {
                return Some(format!("[C11] `{shown}`: --dry-run was given first and the run is not a dry run"));
            }
            // C05/C07: a run with --replace-text (and no explicit --no-data) is fed blob contents
            if let Some(exp) = section(r, "export").and_then(dec_list) {
                let has = |w: &[u8]| exp.iter().any(|a| a == w);
                if field(r, "rtext") != Some("none") && field(r, "nodata") == Some("0") && field(r, "fe") == Some("none") && has(b"--no-data")
                    && !argv.iter().any(|a| a == b"--no-data") {
                    return Some(format!("[C05] `{shown}`: --replace-text is given, --no-data is not, and the exporter is started with --no-data (no blob would reach the rules)"));
                }
                if field(r, "fe") == Some("none") && !has(b"--use-done-feature") {
                    return Some(format!("[C10] `{shown}`: the exporter is started without --use-done-feature"));
                }
            }
            // C08/C01/C15: the importer never folds case
            if let Some(imp) = section(r, "import").and_then(dec_list) {
                let pos = imp.iter().position(|a| a == b"fast-import");
                let ok = pos.is_some_and(|p| p >= 2 && imp[p - 2] == b"-c" && imp[p - 1] == b"core.ignorecase=false");
                if !ok { return Some(format!("[C08] `{shown}`: the importer is not started with -c core.ignorecase=false before fast-import")); }
            }
            // C11: what the documented reading (the model) makes a dry run is a dry run for the tool
            if field(r, "dry") == Some("0") && argv.iter().any(|a| a == b"--dry-run") {
                let mut bad: Vec<Vec<u8>> = Vec::new();
                for a in argv { if std::str::from_utf8(a).map(|s| Regex::new(s).is_err()).unwrap_or(true) && !bad.contains(a) { bad.push(a.clone()); } }
                let want = _m.ask(&format!("cliargs {} {}", enc_list(&bad), enc_list(argv)));
                if field(&want, "dry") == Some("1") {
                    return Some(format!("[C11] `{shown}`: --dry-run stands where a flag is read, yet the run is a real one"));
                }
            }
            // C11: the same words without --dry-run start the same exporter
            if field(r, "dry") == Some("1") {
                let without: Args = argv.iter().filter(|a| a.as_slice() != b"--dry-run").cloned().collect();
                let r2 = run_probe(&without);
                let opts = |x: &str| x.split('|').next().unwrap_or("").replace("dry=1", "dry=0").replace("cleanup=none", "cleanup=*").replace("cleanup=standard", "cleanup=*");
                if r2.starts_with("ok ") && field(&r2, "dry") == Some("0") && opts(&r2) == opts(r) && section(&r2, "export") != section(r, "export") {
                    return Some(format!("[C11] `{shown}`: with --dry-run the exporter is started differently than without it (the preview cannot be what the real run imports)"));
                }
            }
            None
        }),
        shrinkable: vec![],
        labels: vec![],
    }
}

const FLAGS0: &[&str] = &["--analyze", "--analyze-json", "--debug-mode", "--date-order", "--no-data", "--quiet", "--no-reset", "--invert-paths", "--write-report",
    "--write-report-json", "--cleanup-aggressive", "--no-reencode", "--no-quotepath", "--no-mark-tags", "--mark-tags", "--force", "-f", "--enforce-sanity", "--dry-run",
    "--detect-secrets", "--no-ff", "--partial", "--sensitive", "--sensitive-data-removal", "--no-fetch", "--backup", "--cleanup", "--cleanup", "--dry-run", "--force"];
const RARE0: &[&str] = &["-h", "--help", "-V", "--version", "--bogus", "--cleanup=standard", "--cleanup=none", "--cleanup=aggressive", "--cleanup=", "--cleanup=weird", "--config=",
    "--config=/nonexistent/frrs.toml", "--path=src", "", "path"];
const PATHS: &[&str] = &["src", "src/", "a\\b", "/abs", "\\abs", "../x", "a/./b", "a/../b", "", "C:\\x", "c:/x", "docs", "dir with space/f", "caf\u{e9}", "a//b", "x/", ".", "..", ".git", "a/.b", "//server/x"];
const RENAMES: &[&str] = &["a:b", "a:", ":b", "nocolon", "a:b:c", "/x:y", "a/../b:c", "a\\b:c\\d", ":", "", "src/:lib/", "x:/abs", "C:\\x:y"];
const SIZES: &[&str] = &["10", "1K", "5m", "1_000", "x", "", "0", "18446744073709551615", "18014398509481984K", "18014398509481983K", "1G", "1T", "+5", "-1", "1 K", "_"];
const DURS: &[&str] = &["1 day", "-2 hours", "+3 weeks 1 day", "bogus", "", "5", "1 fortnight", "-1 day 3 hours", "2 h", "1 MINUTE"];
const STAMPS: &[&str] = &["0", "1700000000", "-5", "2024-03-01", "2024-03-01T12:00:00Z", "2024-03-01 12:00:00", "nope", "", "1_000", "2024-02-30"];
const MODES: &[&str] = &["always", "auto", "never", "Always", "", "none"];
const COMPAT: &[&str] = &["sanitize", "skip", "error", "x", "Skip", ""];
const INTS: &[&str] = &["5", "0", "1_0", "x", "-1", "99999999999999999999", "18446744073709551615", "", "+7", "007"];
const REFS: &[&str] = &["main", "refs/heads/x", "--all", "^old", "v1..v2", ""];
const FILES: &[&str] = &["rules.txt", "/tmp/x", "", "caf\u{e9}.txt", "a b"];
const REGEXES: &[&str] = &["^src/", "(", "[a-", ".*\\.rs$", "", "(?i)readme", "a{2,1}", "\\"];
const WORDS: &[&str] = &["none", "standard", "aggressive", "None", "--dry-run", "--debug-mode", "--force", "--config"];
const LEGACY: &[&str] = &["--analyze-total-warn", "--analyze-total-critical", "--analyze-large-blob", "--analyze-ref-warn", "--analyze-object-warn", "--analyze-tree-entries",
    "--analyze-path-length", "--analyze-duplicate-paths", "--analyze-commit-msg-warn", "--analyze-max-parents-warn"];

fn flag1(rng: &mut Rng) -> (&'static str, &'static [&'static str]) {
    match rng.below(30) {
        0 => ("--analyze-top", INTS), 1 => (*rng.pick(LEGACY), INTS), 2 => ("--source", FILES), 3 => ("--target", FILES), 4 => ("--ref", REFS), 5 => ("--refs", REFS),
        6 => (*rng.pick(&["--replace-message", "--replace-text", "--mailmap", "--author-rewrite", "--committer-rewrite", "--email-rewrite", "--strip-blobs-with-ids"][..]), FILES),
        7 | 8 | 9 => ("--path", PATHS), 10 | 11 => ("--path-glob", PATHS), 12 => ("--path-regex", REGEXES), 13 | 14 => ("--path-rename", RENAMES),
        15 | 16 => ("--subdirectory-filter", PATHS), 17 => ("--to-subdirectory-filter", PATHS), 18 => ("--tag-rename", RENAMES), 19 => ("--branch-rename", RENAMES),
        20 | 21 => ("--max-blob-size", SIZES), 22 => ("--path-compat-policy", COMPAT), 23 => ("--detect-pattern", REGEXES), 24 => ("--prune-empty", MODES), 25 => ("--prune-degenerate", MODES),
        26 => ("--backup-path", FILES), 27 => ("--date-shift", DURS), 28 => ("--date-set", STAMPS), _ => ("--fe_stream_override", FILES),
    }
}

/// lines about what the exporter is asked for: content rules, size/id filters, --no-data, same or separate target
fn gen_pipes(rng: &mut Rng) -> Args {
    let mut v: Vec<String> = Vec::new();
    let add = |v: &mut Vec<String>, words: &[&str]| { for w in words { v.push(w.to_string()); } };
    if rng.chance(1, 2) { add(&mut v, &["--replace-text", "rules.txt"]); }
    if rng.chance(1, 2) { add(&mut v, &["--max-blob-size", *rng.pick(&["10", "1K", "0"][..])]); }
    if rng.chance(1, 3) { add(&mut v, &["--strip-blobs-with-ids", "ids.txt"]); }
    if rng.chance(1, 4) { add(&mut v, &["--replace-message", "msgs.txt"]); }
    if rng.chance(1, 5) { add(&mut v, &["--no-data"]); }
    if rng.chance(1, 3) { add(&mut v, &["--dry-run"]); }
    if rng.chance(1, 4) { add(&mut v, &["--quiet"]); }
    if rng.chance(1, 4) { add(&mut v, &["--refs", *rng.pick(&["main", "--no-data", "v1..v2"][..])]); }
    match rng.below(5) {
        0 => add(&mut v, &["--source", "repo", "--target", "repo"]),
        1 => add(&mut v, &["--source", "repo", "--target", "other"]),
        2 => add(&mut v, &["--target", "."]),
        3 => add(&mut v, &["--target", "./"]),
        _ => {}
    }
    if rng.chance(1, 3) {
        add(&mut v, &["--debug-mode"]);
        for f in ["--date-order", "--no-reencode", "--no-mark-tags", "--mark-tags", "--no-quotepath"] { if rng.chance(1, 4) { add(&mut v, &[f]); } }
        if rng.chance(1, 6) { add(&mut v, &["--fe_stream_override", "stream.fe"]); }
    }
    // shuffle whole flags (a flag and its value stay together)
    let mut groups: Vec<Vec<String>> = Vec::new();
    let mut i = 0;
    while i < v.len() {
        let takes = matches!(v[i].as_str(), "--replace-text" | "--max-blob-size" | "--strip-blobs-with-ids" | "--replace-message" | "--refs" | "--source" | "--target" | "--fe_stream_override");
        if takes && i + 1 < v.len() { groups.push(vec![v[i].clone(), v[i + 1].clone()]); i += 2; } else { groups.push(vec![v[i].clone()]); i += 1; }
    }
    for k in (1..groups.len()).rev() { let j = rng.below(k + 1); groups.swap(k, j); }
    groups.into_iter().flatten().map(|s| s.into_bytes()).collect()
}

pub fn gen(rng: &mut Rng) -> (Args, bool) {
    if rng.chance(1, 4) { return (gen_pipes(rng), true); }
    let mut v: Vec<String> = Vec::new();
    let n = rng.below(7);
    let risky = rng.chance(1, 3);           // lines with values that are likely refused
    for _ in 0..n {
        match rng.below(10) {
            0..=3 => v.push(rng.pick(FLAGS0).to_string()),
            4..=8 => {
                let (f, pool) = flag1(rng);
                v.push(f.to_string());
                // mostly a value the flag accepts (the first entries of each pool), sometimes any, sometimes another flag or word
                let val = if rng.chance(1, 12) { rng.pick(WORDS).to_string() } else if risky || rng.chance(1, 6) { rng.pick(pool).to_string() } else { pool[rng.below(pool.len().min(3))].to_string() };
                if !(rng.chance(1, 25) && v.len() > 1) { v.push(val); }        // now and then the value is missing (the next word is taken)
            }
            _ => {
                if rng.chance(1, 3) { v.push(rng.pick(RARE0).to_string()); } else { v.push("--cleanup".to_string()); if rng.chance(1, 2) { v.push(rng.pick(WORDS).to_string()); } }
            }
        }
    }
    if rng.chance(1, 2) { let at = rng.below(v.len() + 1); v.insert(at, "--debug-mode".to_string()); }
    if rng.chance(1, 40) { let at = rng.below(v.len() + 1); v.insert(at, "--config".to_string()); if rng.chance(2, 3) { v.insert(at + 1, "/nonexistent/frrs.toml".to_string()); } }
    if rng.chance(1, 10) { v.insert(0, "--dry-run".to_string()); }
    let args: Args = v.into_iter().map(|s| s.into_bytes()).collect();
    (args, true)
}

pub fn run(tier: &str, seed: u64, model: &mut Model) -> Vec<Suite> {
    let n = if tier == "thorough" { 12_000 } else { 1_200 };
    let mut rng = Rng::new(seed ^ 0xC1A5);
    let mut rep = Suite::new("cliargs", &format!("{n} command lines of 0 to 8 options drawn from every flag of parse_args (30 without a value, 39 with one, the --cleanup look-ahead, --cleanup=<mode>, --config in both spellings, help/version, unknown words), values from per-flag pools of accepted and refused spellings (paths with backslashes, absolute, with dot segments, drive letters; OLD:NEW with zero to two colons; sizes around 2^64; durations; timestamps; modes; integers with underscores and signs; valid and invalid regexes), another flag or a clean-up word in the place of a value, a missing last value, --debug-mode anywhere on half of the lines. A quarter of the lines are about what the exporter is asked for (content rules, size and id filters, --no-data, same or separate --source/--target, --dry-run, the debug-only exporter switches, in shuffled order). Each line is parsed by the real parse_args in a child process (the optsprobe binary, empty directory, debug/config environment removed) and by Cli.parseArgs; the 51 fields of the resulting Options, or the way the process ends, must agree, and for accepted lines so must the command lines build_fast_export_cmd / build_fast_import_cmd produce (Pipes.exportCmd / importCmd; the importer's --export-marks path is left out) and the verdict of lib.rs validate_options (Pipes.validCli). Non-trivial: every case."));
    let def = suite();
    // the outcomes seen, for the evidence
    let mut cases: Vec<(Args, bool)> = Vec::with_capacity(n);
    for _ in 0..n { cases.push(gen(&mut rng)); }
    let mut it = cases.into_iter();
    TALLY.lock().unwrap().clear();
    run_suite(&def, &mut it, model, &mut rep);
    for (k, n) in TALLY.lock().unwrap().iter() { for _ in 0..*n { rep.count(k); } }
    let _ = std::fs::remove_dir_all(probe_dir());
    let _ = dec(".");
    vec![rep]
}
