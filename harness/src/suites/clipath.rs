//! C16: `normalize_cli_path_str` / `normalize_cli_glob_str` vs Frrs/CliPath.lean.
use crate::model::Model;
use crate::report::Suite;
use crate::rng::enumerate_strings;
use crate::runner::{guarded, run_suite, shrink_bytes, SuiteDef};
use crate::wire::{enc, enc_bool, show};
use filter_repo_rs::pathutil::{normalize_cli_glob_str, normalize_cli_path_str};
use serde_json::{json, Value};

pub struct CliPath;

fn err_kind(msg: &str) -> &'static str {
    if msg.starts_with("empty ") {
        "empty"
    } else if msg.contains("Windows drive") {
        "drive"
    } else if msg.contains("must not start with") || msg == "do not use absolute paths in globs; patterns are repo-relative" {
        // the glob kind uses the same text for both absolute errors; disambiguated by the caller
        "abs"
    } else if msg.starts_with("do not use absolute paths") {
        "abs"
    } else if msg.contains("'.' or '..'") {
        "dot-seg"
    } else {
        "unknown"
    }
}

#[derive(Clone)]
pub struct CliCase {
    pub s: String,
    pub allow_empty: bool,
    pub glob: bool,
}

impl SuiteDef for CliPath {
    type In = CliCase;
    fn eval(&self, c: &CliCase) -> (String, String) {
        let ae = if c.glob { false } else { c.allow_empty };
        let req = format!("clipath2 {} {}", enc_bool(ae), enc(c.s.as_bytes()));
        let c2 = c.clone();
        let reply = guarded(move || {
            let r = if c2.glob { normalize_cli_glob_str(&c2.s) } else { normalize_cli_path_str(&c2.s, c2.allow_empty) };
            match r {
                Ok(b) => format!("ok {}", enc(&b)),
                Err(e) => format!("err {}", err_kind(&e)),
            }
        });
        (req, reply)
    }
    fn shrink(&self, c: &CliCase) -> Vec<CliCase> {
        shrink_bytes(c.s.as_bytes())
            .into_iter()
            .filter_map(|b| String::from_utf8(b).ok())
            .map(|s| CliCase { s, ..c.clone() })
            .collect()
    }
    /// documented behaviour, computed independently: reject empty (unless allowed), drive letters,
    /// absolute paths (leading '/' or '\'), '.'/'..' segments; otherwise backslashes become '/'.
    fn oracle(&self, c: &CliCase, impl_reply: &str, _m: &mut Model) -> Option<String> {
        if impl_reply == "panic" {
            return Some("normalize panicked".into());
        }
        let s = c.s.as_bytes();
        let ae = !c.glob && c.allow_empty;
        let norm: Vec<u8> = s.iter().map(|&b| if b == b'\\' { b'/' } else { b }).collect();
        let reject = (s.is_empty() && !ae)
            || (s.len() >= 2 && s[1] == b':' && s[0].is_ascii_alphabetic())
            || norm.first() == Some(&b'/')
            || (!s.is_empty() && norm.split(|&b| b == b'/').any(|seg| seg == b"." || seg == b".."));
        let want = if reject { "err".to_string() } else { format!("ok {}", enc(&norm)) };
        let got = if impl_reply.starts_with("err") { "err".to_string() } else { impl_reply.to_string() };
        if want != got {
            Some(format!("CLI path {:?}: documented result {}, implementation {}", c.s, want, impl_reply))
        } else {
            None
        }
    }
    fn describe(&self, c: &CliCase) -> Value {
        json!({"string": c.s, "allow_empty": c.allow_empty, "glob": c.glob, "hex": enc(c.s.as_bytes()), "shown": show(c.s.as_bytes())})
    }
    fn parse(&self, v: &Value) -> Option<CliCase> {
        Some(CliCase { s: v.get("string")?.as_str()?.to_string(), allow_empty: v.get("allow_empty")?.as_bool()?, glob: v.get("glob")?.as_bool()? })
    }
    fn fingerprint(&self, c: &CliCase) -> Vec<u8> {
        let mut v = c.s.as_bytes().to_vec();
        v.push(c.allow_empty as u8);
        v.push(c.glob as u8);
        v
    }
}

pub fn run(tier: &str, _seed: u64, model: &mut Model) -> Suite {
    let max_len = if tier == "thorough" { 7 } else { 5 };
    let mut rep = Suite::new(
        "clipath",
        &format!("exhaustive: all strings of length ≤ {max_len} over {{a, C, /, \\, ., :, *}} through normalize_cli_path_str (allow_empty true/false) and normalize_cli_glob_str. Non-trivial: the string contains a separator, dot or colon; distinct by (string, kind)."),
    );
    let mut cases: Vec<(CliCase, bool)> = Vec::new();
    enumerate_strings(b"aC/\\.:*", max_len, |s| {
        let st = String::from_utf8(s.to_vec()).unwrap();
        let nt = s.iter().any(|&b| b != b'a' && b != b'C');
        cases.push((CliCase { s: st.clone(), allow_empty: false, glob: false }, nt));
        if s.len() <= 3 {
            cases.push((CliCase { s: st.clone(), allow_empty: true, glob: false }, nt));
        }
        cases.push((CliCase { s: st, allow_empty: false, glob: true }, nt));
    });
    for extra in ["é/ü", "a\\b\\c", "dir/sub/file.txt", "..\\x", "x/..", "C:\\x", "c:", "\\\\srv\\share", "//x", "./a", "a/./b", "a/.../b", "...", "a/..b", ".a/b."] {
        cases.push((CliCase { s: extra.to_string(), allow_empty: false, glob: false }, true));
        cases.push((CliCase { s: extra.to_string(), allow_empty: false, glob: true }, true));
    }
    let def = CliPath;
    let mut it = cases.into_iter();
    run_suite(&def, &mut it, model, &mut rep);
    rep.exhaustive = true;
    rep
}
