//! C06: the id list of --strip-blobs-with-ids (in-memory and on-disk lookup) vs parseStripIds/stripContains.
use crate::model::Model;
use crate::report::Suite;
use crate::rng::Rng;
use crate::runner::{guarded, run_suite};
use crate::suites::simple::{scratch_file, Args, Simple};
use crate::wire::{enc, enc_list};
use filter_repo_rs::verif_hooks::strip_sha_lookup;

/// a[0] = file content, a[1..] = queries
pub fn suite() -> Simple {
    Simple {
        eval: Box::new(|a: &Args| {
            let content = a[0].clone();
            let queries: Vec<Vec<u8>> = a[1..].to_vec();
            (format!("striplookup {} {}", enc(&a[0]), enc_list(&queries)), guarded(move || {
                let p = scratch_file(&format!("strip-{:?}", std::thread::current().id()));
                std::fs::write(&p, &content).unwrap();
                match strip_sha_lookup(&p, &queries) {
                    Ok(v) => v.iter().map(|b| if *b { '1' } else { '0' }).collect::<String>(),
                    Err(_) => "err".to_string(),
                }
            }))
        }),
        // C06: exactly the listed ids are targeted
        oracle: Box::new(|a: &Args, r: &str, _m: &mut Model| {
            if r == "panic" { return Some("the id lookup panicked".into()); }
            if r == "err" { return None; }
            let text = String::from_utf8_lossy(&a[0]).to_lowercase();
            let listed: std::collections::HashSet<&str> = text.lines().map(|l| l.trim()).filter(|l| l.len() == 40).collect();
            for (q, bit) in a[1..].iter().zip(r.chars()) {
                let qs = String::from_utf8_lossy(q).to_lowercase();
                let want = q.len() == 40 && q.iter().all(|b| b.is_ascii_hexdigit()) && listed.contains(qs.as_str());
                if want != (bit == '1') {
                    return Some(format!("id {} is {} the list of {} ids but the lookup answers {}", qs, if want { "in" } else { "not in" }, listed.len(), bit));
                }
            }
            None
        }),
        shrinkable: vec![false],
        labels: vec!["id_list_file"],
    }
}

fn hex_id(rng: &mut Rng) -> String { (0..40).map(|_| *rng.pick(b"0123456789abcdef") as char).collect() }

pub fn run(tier: &str, seed: u64, model: &mut Model) -> Vec<Suite> {
    let (small, big) = if tier == "thorough" { (20_000, 40) } else { (2_000, 6) };
    let mut rng = Rng::new(seed ^ 0x57819);
    let mut rep = Suite::new("striplookup", &format!("{small} seeded small id lists (0–60 ids, upper/lower case, duplicates, comments, blank lines, CRLF, surrounding blanks, and one malformed line in 10 %) and {big} large ones of 9 990 … 30 000 distinct ids around the 10 000-entry threshold of the on-disk lookup; queries: listed ids (the smallest, the largest, those next to multiples of 256/1024/2048/4096 in sorted order, random ones, upper-cased), unlisted ids differing in the last digit, malformed ids. Non-trivial: a listed id is queried; distinct by the case."));
    let def = suite();
    let mut cases: Vec<(Args, bool)> = Vec::new();
    for _ in 0..small {
        let n = rng.below(61);
        let mut ids: Vec<String> = (0..n).map(|_| hex_id(&mut rng)).collect();
        let mut lines: Vec<String> = Vec::new();
        for id in &ids {
            let mut l = if rng.chance(1, 4) { id.to_uppercase() } else { id.clone() };
            if rng.chance(1, 8) { l = format!("  {l}\t"); }
            lines.push(l);
            if rng.chance(1, 10) { lines.push("# comment 0123".into()); }
            if rng.chance(1, 10) { lines.push("".into()); }
            if rng.chance(1, 12) { lines.push(id.clone()); }
        }
        if rng.chance(1, 10) { let at = rng.below(lines.len() + 1); lines.insert(at, rng.pick(&["xyz", "0123", "g000000000000000000000000000000000000000", "00000000000000000000000000000000000000001"]).to_string()); }
        let sep = if rng.chance(1, 6) { "\r\n" } else { "\n" };
        let mut content = lines.join(sep).into_bytes();
        if rng.chance(3, 4) { content.extend_from_slice(sep.as_bytes()); }
        let mut a: Args = vec![content];
        ids.sort();
        for id in ids.iter().take(6) { a.push(if rng.chance(1, 3) { id.to_uppercase().into_bytes() } else { id.clone().into_bytes() }); }
        if let Some(l) = ids.last() { a.push(l.clone().into_bytes()); let mut x = l.clone().into_bytes(); x[39] = if x[39] == b'0' { b'1' } else { b'0' }; a.push(x); }
        a.push(hex_id(&mut rng).into_bytes());
        a.push(b"short".to_vec());
        let nt = !ids.is_empty();
        cases.push((a, nt));
    }
    for k in 0..big {
        let n = *rng.pick(&[9_990usize, 10_000, 10_001, 10_240, 12_345, 14_336, 20_000, 30_000][..]) + if k % 2 == 1 { rng.below(2048) } else { 0 };
        let mut set = std::collections::BTreeSet::new();
        while set.len() < n { set.insert(hex_id(&mut rng)); }
        let sorted: Vec<String> = set.iter().cloned().collect();
        let mut shuffled = sorted.clone();
        for i in (1..shuffled.len()).rev() { let j = rng.below(i + 1); shuffled.swap(i, j); }
        let content = (shuffled.join("\n") + "\n").into_bytes();
        let mut a: Args = vec![content];
        let mut idx: Vec<usize> = vec![0, 1, n - 1, n - 2, n / 2];
        for step in [256usize, 1024, 2048, 4096] { let mut i = step; while i < n { idx.push(i - 1); idx.push(i); i += step * (1 + rng.below(3)); } idx.push(n - (n % step).max(1)); }
        for _ in 0..10 { idx.push(rng.below(n)); }
        idx.sort(); idx.dedup();
        for i in idx.iter().take(70) { a.push(sorted[*i].clone().into_bytes()); }
        for _ in 0..5 { a.push(hex_id(&mut rng).into_bytes()); }
        a.push(sorted[n - 1].to_uppercase().into_bytes());
        cases.push((a, true));
    }
    let mut it = cases.into_iter();
    run_suite(&def, &mut it, model, &mut rep);
    vec![rep]
}
