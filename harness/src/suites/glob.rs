//! C16: `glob_match_bytes` vs Frrs/Glob.lean; independent regex-translation oracle.
use crate::model::Model;
use crate::report::Suite;
use crate::rng::{enumerate_strings, Rng};
use crate::runner::{guarded, run_suite, shrink_bytes, SuiteDef};
use crate::wire::{enc, enc_bool, show};
use filter_repo_rs::pathutil::glob_match_bytes;
use serde_json::{json, Value};

pub struct Glob;

/// the documented meaning as a regex: `**/` → `(?:.*/)?`, `**` → `.*`, `*` → `[^/]*`, `?` → `[^/]`
pub fn spec_regex(pat: &[u8]) -> regex::bytes::Regex {
    let mut rx = String::from("(?s-u)^");
    let mut i = 0;
    while i < pat.len() {
        let c = pat[i];
        if c == b'*' && pat.get(i + 1) == Some(&b'*') {
            if pat.get(i + 2) == Some(&b'/') {
                rx.push_str("(?:.*/)?");
                i += 3;
            } else {
                rx.push_str(".*");
                i += 2;
            }
        } else if c == b'*' {
            rx.push_str("[^/]*");
            i += 1;
        } else if c == b'?' {
            rx.push_str("[^/]");
            i += 1;
        } else {
            rx.push_str(&format!("\\x{:02x}", c));
            i += 1;
        }
    }
    rx.push('$');
    regex::bytes::Regex::new(&rx).unwrap()
}

impl SuiteDef for Glob {
    type In = (Vec<u8>, Vec<u8>);
    fn eval(&self, (p, t): &Self::In) -> (String, String) {
        let req = format!("glob {} {}", enc(p), enc(t));
        let (p2, t2) = (p.clone(), t.clone());
        let reply = guarded(move || enc_bool(glob_match_bytes(&p2, &t2)).to_string());
        (req, reply)
    }
    fn shrink(&self, (p, t): &Self::In) -> Vec<Self::In> {
        let mut out: Vec<Self::In> = shrink_bytes(t).into_iter().map(|t2| (p.clone(), t2)).collect();
        out.extend(shrink_bytes(p).into_iter().map(|p2| (p2, t.clone())));
        out
    }
    fn oracle(&self, (p, t): &Self::In, impl_reply: &str, _model: &mut Model) -> Option<String> {
        if impl_reply == "panic" {
            return Some("glob_match_bytes panicked".into());
        }
        let want = spec_regex(p).is_match(t);
        if impl_reply != enc_bool(want) {
            Some(format!(
                "pattern {} text {}: documented meaning says {}, implementation says {}",
                show(p), show(t), want, impl_reply
            ))
        } else {
            None
        }
    }
    fn describe(&self, (p, t): &Self::In) -> Value {
        json!({"pattern": show(p), "text": show(t), "pattern_hex": enc(p), "text_hex": enc(t)})
    }
    fn parse(&self, v: &Value) -> Option<Self::In> {
        Some((crate::wire::dec(v.get("pattern_hex")?.as_str()?)?, crate::wire::dec(v.get("text_hex")?.as_str()?)?))
    }
    fn fingerprint(&self, (p, t): &Self::In) -> Vec<u8> {
        [p.as_slice(), &[0xfe], t.as_slice()].concat()
    }
}

pub fn run(tier: &str, seed: u64, model: &mut Model) -> Suite {
    let (pl, tl, n_random) = if tier == "thorough" { (4, 5, 1_000_000) } else { (3, 4, 100_000) };
    let mut rep = Suite::new(
        "glob",
        &format!("exhaustive: all patterns of length ≤ {pl} over {{a,b,/,.,*,?}} × all texts of length ≤ {tl} over {{a,b,/,.}}; plus {n_random} seeded random long pattern/text pairs. Non-trivial: the pattern contains a wildcard; distinct by (pattern, text). The model's answer is also compared with an independent regex translation of the documented meaning (model-validation)."),
    );
    let mut pats: Vec<Vec<u8>> = Vec::new();
    enumerate_strings(b"ab/.*?", pl, |s| pats.push(s.to_vec()));
    let mut texts: Vec<Vec<u8>> = Vec::new();
    enumerate_strings(b"ab/.", tl, |s| texts.push(s.to_vec()));
    rep.dist.insert("patterns".into(), pats.len() as u64);
    rep.dist.insert("texts".into(), texts.len() as u64);
    let def = Glob;
    // model validation against the independent oracle happens inside the comparison loop:
    // impl == model is checked by run_suite; model == spec_regex is checked here on the impl value
    let mut spec_mismatch = 0u64;
    {
        let mut it = pats.iter().flat_map(|p| {
            let rx = spec_regex(p);
            let wild = p.iter().any(|&b| b == b'*' || b == b'?');
            texts.iter().map(move |t| {
                let want = rx.is_match(t);
                ((p.clone(), t.clone()), wild, want)
            }).collect::<Vec<_>>()
        }).map(|(inp, wild, want)| {
            if glob_match_bytes(&inp.0, &inp.1) != want { spec_mismatch += 1; }
            (inp, wild)
        });
        run_suite(&def, &mut it, model, &mut rep);
    }
    let mut rng = Rng::new(seed ^ 0x610B);
    let mut random: Vec<((Vec<u8>, Vec<u8>), bool)> = Vec::new();
    for _ in 0..n_random {
        let p = rng.bytes_from(b"ab/.*?*", 10);
        // texts related to the pattern: replace wildcards by random fill
        let mut t = Vec::new();
        for &c in &p {
            match c {
                b'*' => t.extend(rng.bytes_from(b"ab/.", 3)),
                b'?' => t.push(*rng.pick(b"ab./")),
                c => { if !rng.chance(1, 12) { t.push(c) } }
            }
        }
        let wild = p.iter().any(|&b| b == b'*' || b == b'?');
        if glob_match_bytes(&p, &t) != spec_regex(&p).is_match(&t) { spec_mismatch += 1; }
        random.push(((p, t), wild));
    }
    let mut it = random.into_iter();
    run_suite(&def, &mut it, model, &mut rep);
    rep.dist.insert("impl-vs-documented-regex-mismatches".into(), spec_mismatch);
    rep.exhaustive = true;
    rep
}
