//! C15/C16/C01: `handle_file_change_line` vs Frrs/FileChange.lean on every line shape.
use crate::model::Model;
use crate::report::Suite;
use crate::rng::{enumerate_strings, Rng};
use crate::runner::{guarded, run_suite, shrink_bytes, SuiteDef};
use crate::suites::codec::{no_ctrl, ALPHABET};
use crate::wire::{enc, enc_bool, enc_list, enc_opt, enc_pairs, show};
use filter_repo_rs::verif_hooks::handle_file_change_line;
use filter_repo_rs::Options;
use serde_json::{json, Value};

#[derive(Clone, Default)]
pub struct LineCase {
    pub invert: bool,
    pub paths: Vec<Vec<u8>>,
    pub globs: Vec<Vec<u8>>,
    pub regexes: Vec<String>,
    pub renames: Vec<(Vec<u8>, Vec<u8>)>,
    pub line: Vec<u8>,
    /// decoded paths the generator put into the line (for regex hits and the oracle); empty for
    /// malformed lines
    pub known_paths: Vec<Vec<u8>>,
    /// `Some(shape)` when the line is an exporter-form line (ReprOf fields, permitted line end)
    pub exporter_form: Option<&'static str>,
}

pub fn make_opts(c: &LineCase) -> Options {
    let mut o = Options::default();
    o.paths = c.paths.clone();
    o.path_globs = c.globs.clone();
    o.path_regexes = c
        .regexes
        .iter()
        .map(|r| regex::bytes::Regex::new(r).expect("generator regex"))
        .collect();
    o.invert_paths = c.invert;
    o.path_renames = c.renames.clone();
    o
}

fn rx_hits(c: &LineCase, o: &Options) -> Vec<Vec<u8>> {
    let mut cands: Vec<Vec<u8>> = c.known_paths.clone();
    // also whatever the tool's own parser would see for an unquoted field (malformed lines):
    // the model only consults regexMatch on parsed paths, and for malformed lines no regex is set
    cands.sort();
    cands.dedup();
    cands
        .into_iter()
        .filter(|p| o.path_regexes.iter().any(|re| re.is_match(p)))
        .collect()
}

pub struct Lines;

/// git-style c-quoting of a path (what `quote_c_style` emits with core.quotepath=true|false)
pub fn git_quote(p: &[u8], octal_high: bool) -> Vec<u8> {
    let mut out = vec![b'"'];
    for &b in p {
        match b {
            b'"' => out.extend_from_slice(b"\\\""),
            b'\\' => out.extend_from_slice(b"\\\\"),
            b'\n' => out.extend_from_slice(b"\\n"),
            b'\t' => out.extend_from_slice(b"\\t"),
            b'\r' => out.extend_from_slice(b"\\r"),
            0x00..=0x1f | 0x7f => out.extend_from_slice(format!("\\{:03o}", b).as_bytes()),
            0x80..=0xff if octal_high => out.extend_from_slice(format!("\\{:03o}", b).as_bytes()),
            _ => out.push(b),
        }
    }
    out.push(b'"');
    out
}

pub fn plain_ok(p: &[u8]) -> bool {
    !p.is_empty() && p[0] != b'"' && !p.iter().any(|&b| b == b' ' || b == b'\n' || b == b'\r')
}

/// split an emitted line into (op, fixed fields, path fields) for the semantic oracle
fn split_emitted(line: &[u8]) -> Option<(u8, Vec<Vec<u8>>, Vec<Vec<u8>>)> {
    if line.len() < 3 || line[1] != b' ' || *line.last()? != b'\n' {
        return None;
    }
    let body = &line[2..line.len() - 1];
    let op = line[0];
    let take_field = |s: &[u8]| -> Option<(Vec<u8>, usize)> {
        if s.first() == Some(&b'"') {
            let mut i = 1;
            let mut esc = false;
            while i < s.len() {
                if esc {
                    esc = false;
                } else if s[i] == b'\\' {
                    esc = true;
                } else if s[i] == b'"' {
                    return Some((s[..=i].to_vec(), i + 1));
                }
                i += 1;
            }
            None
        } else {
            let end = s.iter().position(|&b| b == b' ').unwrap_or(s.len());
            Some((s[..end].to_vec(), end))
        }
    };
    match op {
        b'M' => {
            let s1 = body.iter().position(|&b| b == b' ')?;
            let rest = &body[s1 + 1..];
            let s2 = rest.iter().position(|&b| b == b' ')?;
            Some((
                op,
                vec![body[..s1].to_vec(), rest[..s2].to_vec()],
                vec![rest[s2 + 1..].to_vec()],
            ))
        }
        b'D' => Some((op, vec![], vec![body.to_vec()])),
        b'C' | b'R' => {
            let (f1, n) = take_field(body)?;
            if body.get(n) != Some(&b' ') {
                return None;
            }
            Some((op, vec![], vec![f1, body[n + 1..].to_vec()]))
        }
        _ => None,
    }
}

impl SuiteDef for Lines {
    type In = LineCase;
    fn eval(&self, c: &LineCase) -> (String, String) {
        let o = make_opts(c);
        let hits = rx_hits(c, &o);
        let req = format!(
            "handle {} {} {} {} {} {} {}",
            enc_bool(c.invert),
            enc_list(&c.paths),
            enc_list(&c.globs),
            enc_pairs(&c.renames),
            enc_bool(!c.regexes.is_empty()),
            enc_list(&hits),
            enc(&c.line)
        );
        let line = c.line.clone();
        let reply = guarded(std::panic::AssertUnwindSafe(move || {
            match handle_file_change_line(&line, &o) {
                Ok(out) => enc_opt(&out.line),
                Err(e) => format!("err:{e}"),
            }
        }));
        (req, reply)
    }
    fn shrink(&self, c: &LineCase) -> Vec<LineCase> {
        let mut out = Vec::new();
        if c.invert {
            out.push(LineCase { invert: false, ..c.clone() });
        }
        for i in 0..c.paths.len() {
            let mut d = c.clone();
            d.paths.remove(i);
            out.push(d);
        }
        for i in 0..c.globs.len() {
            let mut d = c.clone();
            d.globs.remove(i);
            out.push(d);
        }
        for i in 0..c.regexes.len() {
            let mut d = c.clone();
            d.regexes.remove(i);
            out.push(d);
        }
        for i in 0..c.renames.len() {
            let mut d = c.clone();
            d.renames.remove(i);
            out.push(d);
        }
        // shrinking the raw line makes it a different (possibly malformed) line: it stays a valid
        // correspondence case but is no longer known to be exporter-form
        for l in shrink_bytes(&c.line) {
            let mut d = c.clone();
            d.line = l;
            d.exporter_form = None;
            d.known_paths.clear();
            if d.regexes.is_empty() {
                out.push(d);
            }
        }
        out
    }
    /// C15 oracle on an exporter-form line: the emitted line carries the same operation, mode and
    /// object, and git reads its path field(s) as rename(p) — or the line is dropped exactly when
    /// the selectors drop it. Computed from the model's keep/rename on the *decoded* paths and the
    /// model of git's unquoting applied to the implementation's own output.
    fn oracle(&self, c: &LineCase, impl_reply: &str, model: &mut Model) -> Option<String> {
        if impl_reply == "panic" {
            return Some("handle_file_change_line panicked".into());
        }
        if c.exporter_form.is_none() {
            // C10: a change line that cannot be parsed (Lean: parseFileChangeLine = none) must be forwarded byte for byte,
            // whatever the path options are, so that the importer sees the corruption
            if model.ask(&format!("parseable {}", enc(&c.line))) == "0" && impl_reply != enc(&c.line) {
                return Some(format!("an unparseable change line was {} instead of being forwarded verbatim: the importer no longer sees the corruption",
                    if impl_reply == "none" { "dropped".to_string() } else { format!("rewritten to {}", impl_reply) }));
            }
            return None;
        }
        let shape = c.exporter_form?;
        if !c.known_paths.iter().all(|p| no_ctrl(p)) {
            return None;
        }
        // expected outcome from the model on a canonical rendering of the same change
        let canon_line: Vec<u8> = match shape {
            "deleteall" => return if impl_reply == enc(&c.line) { None } else { Some("deleteall not forwarded verbatim".into()) },
            _ => {
                let (op, fixed, _) = match split_emitted(&{
                    let mut l = c.line.clone();
                    while matches!(l.last(), Some(b'\n') | Some(b'\r')) { l.pop(); }
                    l.push(b'\n');
                    l
                }) { Some(x) => x, None => return None };
                let mut l = vec![op, b' '];
                for f in &fixed { l.extend_from_slice(f); l.push(b' '); }
                let qs: Vec<Vec<u8>> = c.known_paths.iter().map(|p| git_quote(p, true)).collect();
                l.extend_from_slice(&qs.join(&b' '));
                l.push(b'\n');
                l
            }
        };
        let mut cc = c.clone();
        cc.line = canon_line;
        let (req, _) = self.eval(&cc);
        let expected = model.ask(&req);
        if expected == "none" || impl_reply == "none" {
            return if expected == impl_reply { None } else {
                Some(format!("kept/dropped differs: expected {expected}, implementation {impl_reply}"))
            };
        }
        let (Some(e), Some(i)) = (crate::wire::dec(&expected), crate::wire::dec(impl_reply)) else {
            return Some(format!("unreadable reply {impl_reply}"));
        };
        let (Some((eo, ef, ep)), Some((io, if_, ip))) = (split_emitted(&e), split_emitted(&i)) else {
            return Some(format!("emitted line is not a well-formed change line: {}", show(&i)));
        };
        if eo != io || ef != if_ || ep.len() != ip.len() {
            return Some(format!("operation/mode/object differ: expected {} got {}", show(&e), show(&i)));
        }
        for (a, b) in ep.iter().zip(ip.iter()) {
            let ga = model.ask(&format!("gitread {}", enc(a)));
            let gb = model.ask(&format!("gitread {}", enc(b)));
            if ga != gb {
                return Some(format!(
                    "importer reads path field {} as {} but the renamed original path is {}",
                    show(b), gb, ga
                ));
            }
        }
        None
    }
    fn describe(&self, c: &LineCase) -> Value {
        json!({
            "line_hex": enc(&c.line), "line": show(&c.line), "invert": c.invert,
            "paths": c.paths.iter().map(|p| show(p)).collect::<Vec<_>>(),
            "globs": c.globs.iter().map(|p| show(p)).collect::<Vec<_>>(),
            "regexes": c.regexes,
            "renames": c.renames.iter().map(|(a, b)| format!("{}:{}", show(a), show(b))).collect::<Vec<_>>(),
            "exporter_form": c.exporter_form,
            "paths_hex": enc_list(&c.paths), "globs_hex": enc_list(&c.globs),
            "renames_hex": enc_pairs(&c.renames), "known_paths_hex": enc_list(&c.known_paths),
        })
    }
    fn parse(&self, v: &Value) -> Option<LineCase> {
        use crate::wire::{dec, dec_list, dec_pairs};
        let ef = match v.get("exporter_form").and_then(|x| x.as_str()) {
            Some("M") => Some("M"), Some("D") => Some("D"), Some("C") => Some("C"),
            Some("R") => Some("R"), Some("deleteall") => Some("deleteall"), _ => None,
        };
        Some(LineCase {
            invert: v.get("invert")?.as_bool()?,
            paths: dec_list(v.get("paths_hex")?.as_str()?)?,
            globs: dec_list(v.get("globs_hex")?.as_str()?)?,
            regexes: v.get("regexes")?.as_array()?.iter().filter_map(|x| x.as_str().map(|s| s.to_string())).collect(),
            renames: dec_pairs(v.get("renames_hex")?.as_str()?)?,
            line: dec(v.get("line_hex")?.as_str()?)?,
            known_paths: dec_list(v.get("known_paths_hex")?.as_str()?)?,
            exporter_form: ef,
        })
    }
    fn fingerprint(&self, c: &LineCase) -> Vec<u8> {
        let mut v = c.line.clone();
        v.push(c.invert as u8);
        for p in c.paths.iter().chain(c.globs.iter()) {
            v.push(0);
            v.extend_from_slice(p);
        }
        for (a, b) in &c.renames {
            v.push(1);
            v.extend_from_slice(a);
            v.push(2);
            v.extend_from_slice(b);
        }
        for r in &c.regexes {
            v.push(3);
            v.extend_from_slice(r.as_bytes());
        }
        v
    }
}

const ENDINGS: &[&[u8]] = &[b"\n", b"\r\n", b""];

fn repr_forms(p: &[u8], rng: &mut Rng) -> Vec<u8> {
    // pick one exporter rendering of p
    let mut forms: Vec<Vec<u8>> = vec![git_quote(p, true), git_quote(p, false)];
    if plain_ok(p) {
        forms.push(p.to_vec());
        forms.push(p.to_vec());
    }
    forms.swap_remove(rng.below(forms.len()))
}

fn random_selectors(c: &mut LineCase, rng: &mut Rng) {
    let ps = c.known_paths.clone();
    let pick_path = |rng: &mut Rng| -> Vec<u8> {
        if ps.is_empty() || rng.chance(1, 5) {
            rng.bytes_from(b"ab/ \"\\\xc3", 3)
        } else {
            let p = rng.pick(&ps).clone();
            let n = rng.below(p.len() + 1);
            p[..n].to_vec()
        }
    };
    // each selector kind independently, so every combination (path+glob, glob+regex, all three,
    // several of one kind) occurs; one case in eight has no selector at all
    if !rng.chance(1, 8) {
        let mut any = false;
        while !any {
            if rng.chance(2, 5) {
                any = true;
                for _ in 0..1 + rng.below(2) {
                    c.paths.push(pick_path(rng));
                }
            }
            if rng.chance(2, 5) {
                any = true;
                for _ in 0..1 + rng.below(2) {
                    if rng.chance(1, 3) {
                        c.globs.push(rng.bytes_from(b"ab/*?.", 4));
                    } else {
                        let mut g = pick_path(rng);
                        g.extend_from_slice(*rng.pick(&[&b"*"[..], b"**", b"?", b"**/", b"", b"*/*"]));
                        c.globs.push(g);
                    }
                }
            }
            if rng.chance(1, 3) {
                any = true;
                for _ in 0..1 + rng.below(2) {
                    c.regexes.push((*rng.pick(&["a", "^a", "/$", "b.?c", r"\.rs$", "[0-7]", "^\"", "\\\\", "^$", "x|/"])).to_string());
                }
            }
        }
    }
    c.invert = rng.chance(1, 3);
    let nren = [0, 0, 1, 1, 2][rng.below(5)];
    for _ in 0..nren {
        let old = pick_path(rng);
        let mut new = rng.bytes_from(b"xy/ \"\\\xff", 3);
        if new == old {
            new.push(b'z');
        }
        c.renames.push((old, new));
    }
}

pub fn run(tier: &str, seed: u64, model: &mut Model) -> Suite {
    let (max_len, n_random, n_malformed) = if tier == "thorough" { (4, 1_000_000, 500_000) } else { (3, 60_000, 40_000) };
    let mut rep = Suite::new(
        "lines",
        &format!("exporter-form lines: every path of length 1..={max_len} over the C15 alphabet (control-free ones) inside each of the shapes M/D/C/R with a seeded choice of rendering (git-quoted with octal, git-quoted raw high bytes, verbatim), line ending (LF, CRLF, none) and selector/rename options; {n_random} further random exporter-form lines with long paths over all bytes; deleteall; plus a separate malformed stream of {n_malformed} random/garbled lines. Non-trivial: a quoted field, or a selector/rename that applies; distinct by (line, options)."),
    );
    let mut rng = Rng::new(seed ^ 0x11E5);
    let mut cases: Vec<(LineCase, bool)> = Vec::new();
    let modes: [&[u8]; 4] = [b"100644", b"100755", b"120000", b"160000"];
    let ids: [&[u8]; 3] = [b":1", b":4294967296", b"e69de29bb2d1d6434b8b29ae775ad8c2e48c5391"];
    let mut paths: Vec<Vec<u8>> = Vec::new();
    enumerate_strings(ALPHABET, max_len, |s| {
        if !s.is_empty() && no_ctrl(s) {
            paths.push(s.to_vec())
        }
    });
    let mut rng2 = rng.fork();
    for _ in 0..n_random {
        let len = 1 + rng2.below(30);
        let p: Vec<u8> = (0..len)
            .map(|_| {
                if rng2.chance(1, 2) {
                    *rng2.pick(b"ab/ \"\\nt07\x80\xc3\xa9\xff.")
                } else {
                    let b = (rng2.next() & 0xff) as u8;
                    if b <= 0x1f || b == 0x7f { b'a' } else { b }
                }
            })
            .collect();
        paths.push(p);
    }
    for p in paths {
        let shape = rng.below(4);
        let le = *rng.pick(ENDINGS);
        let mut c = LineCase::default();
        let mut line: Vec<u8> = Vec::new();
        match shape {
            0 => {
                c.known_paths = vec![p.clone()];
                line.extend_from_slice(b"M ");
                line.extend_from_slice(*rng.pick(&modes));
                line.push(b' ');
                line.extend_from_slice(*rng.pick(&ids));
                line.push(b' ');
                line.extend_from_slice(&repr_forms(&p, &mut rng));
                c.exporter_form = Some("M");
            }
            1 => {
                c.known_paths = vec![p.clone()];
                line.extend_from_slice(b"D ");
                line.extend_from_slice(&repr_forms(&p, &mut rng));
                c.exporter_form = Some("D");
            }
            _ => {
                let mut p2 = p.clone();
                p2.reverse();
                if rng.chance(1, 2) {
                    p2 = rng.bytes_from(b"cd/ \"", 4);
                    if p2.is_empty() { p2.push(b'c'); }
                }
                c.known_paths = vec![p.clone(), p2.clone()];
                line.extend_from_slice(if shape == 2 { b"C " } else { b"R " });
                line.extend_from_slice(&repr_forms(&p, &mut rng));
                line.push(b' ');
                line.extend_from_slice(&repr_forms(&p2, &mut rng));
                c.exporter_form = Some(if shape == 2 { "C" } else { "R" });
            }
        }
        line.extend_from_slice(le);
        c.line = line;
        random_selectors(&mut c, &mut rng);
        let nontrivial = c.line.contains(&b'"') || !c.paths.is_empty() || !c.globs.is_empty() || !c.renames.is_empty() || !c.regexes.is_empty();
        rep.count(&format!("shape-{}", c.exporter_form.unwrap()));
        if c.line.contains(&b'"') { rep.count("quoted-field"); }
        if c.invert { rep.count("invert"); }
        if !c.renames.is_empty() { rep.count("with-rename"); }
        if !c.regexes.is_empty() { rep.count("with-regex"); }
        cases.push((c, nontrivial));
    }
    for le in [&b""[..], b"\n", b"\r\n", b"\r", b" \n", b"x\n"] {
        let mut c = LineCase::default();
        c.line = [b"deleteall", le].concat();
        if le == b"" || le == b"\n" || le == b"\r\n" { c.exporter_form = Some("deleteall"); }
        c.paths = vec![b"a".to_vec()];
        rep.count("shape-deleteall");
        cases.push((c, true));
    }
    // malformed stream
    for _ in 0..n_malformed {
        let mut c = LineCase::default();
        let kind = rng.below(4);
        c.line = match kind {
            0 => rng.bytes_from(b"MDCR \"\\a/\n\r:01", 14),
            1 => {
                let mut l = rng.pick(&[&b"M 100644 :1 "[..], b"D ", b"C ", b"R ", b"M ", b"M 1 ", b"Mx", b"deleteall"]).to_vec();
                l.extend(rng.bytes_from(b"\"\\ ab\n\r07", 10));
                l
            }
            2 => {
                // an exporter-form line with one byte garbled / removed / duplicated
                let p = rng.bytes_from(b"ab \"\\/", 5);
                let mut l = b"M 100644 :1 ".to_vec();
                l.extend(git_quote(&p, true));
                l.push(b'\n');
                let i = rng.below(l.len());
                match rng.below(3) { 0 => { l.remove(i); } 1 => { let b = l[i]; l.insert(i, b); } _ => { l[i] = *rng.pick(b"\"\\ \n"); } }
                l
            }
            _ => (0..rng.below(12)).map(|_| (rng.next() & 0xff) as u8).collect(),
        };
        if rng.chance(1, 2) { c.paths.push(rng.bytes_from(b"ab\"", 2)); }
        if rng.chance(1, 4) { c.renames.push((rng.bytes_from(b"ab\"", 2), rng.bytes_from(b"xy", 2))); if c.renames[0].0 == c.renames[0].1 { c.renames.clear(); } }
        c.invert = rng.chance(1, 4);
        rep.count("malformed-stream");
        cases.push((c, false));
    }
    let def = Lines;
    let mut it = cases.into_iter();
    run_suite(&def, &mut it, model, &mut rep);
    rep
}
