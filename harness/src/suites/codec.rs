//! C15: pathutil quoting functions vs Frrs/PathCodec.lean.
use crate::model::Model;
use crate::report::Suite;
use crate::rng::{enumerate_strings, Rng};
use crate::runner::{guarded, run_suite, shrink_bytes, SuiteDef};
use crate::wire::{dec, enc, enc_bool, show};
use filter_repo_rs::pathutil as pu;
use serde_json::{json, Value};

/// the property's alphabet: space, quote, backslash, n, t, 0, 1, 7, 8, '/', 0x7e, 0x7f, 0x80, 0xff, a
pub const ALPHABET: &[u8] = &[
    b' ', b'"', b'\\', b'n', b't', b'0', b'1', b'7', b'8', b'/', 0x7e, 0x7f, 0x80, 0xff, b'a',
];

pub fn no_ctrl(p: &[u8]) -> bool {
    p.iter().all(|&b| !(b <= 0x1f || b == 0x7f))
}

pub struct Codec;

impl SuiteDef for Codec {
    type In = Vec<u8>;
    fn eval(&self, s: &Vec<u8>) -> (String, String) {
        let req = format!("codec {}", enc(s));
        let s2 = s.clone();
        let reply = guarded(move || {
            format!(
                "{} {} {} {} {} {}",
                enc(&pu::dequote_c_style_bytes(&s2)),
                enc(&pu::enquote_c_style_bytes(&s2)),
                enc(&pu::encode_path_for_fi(&s2)),
                enc(&pu::decode_fast_export_path_bytes(&s2)),
                enc_bool(pu::needs_c_style_quote(&s2)),
                enc(&pu::sanitize_fast_import_path_bytes(&s2)),
            )
        });
        (req, reply)
    }
    fn shrink(&self, s: &Vec<u8>) -> Vec<Vec<u8>> {
        shrink_bytes(s)
    }
    fn oracle(&self, s: &Vec<u8>, impl_reply: &str, model: &mut Model) -> Option<String> {
        if impl_reply == "panic" {
            return Some("a quoting function panicked".into());
        }
        if !no_ctrl(s) {
            return None; // the round-trip claim is for control-free paths
        }
        let encd = pu::encode_path_for_fi(s);
        let back = pu::decode_fast_export_path_bytes(&encd);
        if &back != s {
            return Some(format!(
                "decode(encode(p)) = {} ≠ p (encode(p) = {})",
                show(&back),
                show(&encd)
            ));
        }
        // importer side: git's unquote of what the tool emits
        let g = model.ask(&format!("gitread {}", enc(&encd)));
        if g != enc(s) {
            return Some(format!(
                "git reads the emitted field {} as {} ≠ p",
                show(&encd),
                g
            ));
        }
        None
    }
    fn describe(&self, s: &Vec<u8>) -> Value {
        json!({"bytes_hex": enc(s), "bytes": show(s)})
    }
    fn fingerprint(&self, s: &Vec<u8>) -> Vec<u8> {
        s.clone()
    }
    fn parse(&self, v: &Value) -> Option<Vec<u8>> {
        dec(v.get("bytes_hex")?.as_str()?)
    }
}

pub fn run(tier: &str, seed: u64, model: &mut Model) -> Suite {
    let (max_len, n_random) = if tier == "thorough" { (5, 2_000_000) } else { (4, 100_000) };
    let mut rep = Suite::new(
        "codec",
        &format!(
            "exhaustive: all strings of length ≤ {max_len} over the 15-byte C15 alphabet; plus {n_random} seeded random strings over all 256 bytes (length ≤ 40, biased to quoting-relevant bytes). Non-trivial: the string needs quoting or contains a backslash/quote/octal digit; distinct by content."
        ),
    );
    let mut all: Vec<Vec<u8>> = Vec::new();
    enumerate_strings(ALPHABET, max_len, |s| all.push(s.to_vec()));
    rep.count("exhaustive-alphabet");
    let n_exh = all.len();
    let mut rng = Rng::new(seed ^ 0xC15);
    let bias: Vec<u8> = b" \"\\nt01234567r/\x7f\x80\xff\x7e".to_vec();
    for _ in 0..n_random {
        let len = rng.below(41);
        let mut s = Vec::with_capacity(len);
        for _ in 0..len {
            if rng.chance(1, 2) {
                s.push(*rng.pick(&bias));
            } else {
                s.push((rng.next() & 0xff) as u8);
            }
        }
        all.push(s);
    }
    rep.dist.insert("exhaustive-strings".into(), n_exh as u64);
    rep.dist.insert("random-strings".into(), n_random as u64);
    let mut quoted = 0u64;
    let mut ctrl = 0u64;
    for s in &all {
        if pu::needs_c_style_quote(s) {
            quoted += 1;
        }
        if !no_ctrl(s) {
            ctrl += 1;
        }
    }
    rep.dist.insert("needs-quoting".into(), quoted);
    rep.dist.insert("has-control-byte".into(), ctrl);
    let def = Codec;
    let mut it = all.into_iter().map(|s| {
        let nt = s
            .iter()
            .any(|&b| b <= 0x20 || b >= 0x7f || b == b'"' || b == b'\\' || (b'0'..=b'7').contains(&b));
        (s, nt)
    });
    run_suite(&def, &mut it, model, &mut rep);
    rep.exhaustive = false;
    let _ = dec;
    rep
}
