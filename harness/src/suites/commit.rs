//! C02: `should_keep_commit` (whole decision table) and `finalize_parent_lines` vs Frrs/Commit.lean.
use crate::model::Model;
use crate::report::Suite;
use crate::rng::Rng;
use crate::runner::{guarded, run_suite, SuiteDef};
use crate::wire::{dec_list, enc, enc_bool, enc_list, show};
use filter_repo_rs::opts::PruneMode;
use filter_repo_rs::verif_hooks::{build_alias, finalize_parent_lines, parse_from_mark, parse_mark_number, rename_commit_header_ref, should_keep_commit};
use filter_repo_rs::Options;
use serde_json::{json, Value};
use std::collections::{BTreeSet, HashMap, HashSet};

#[derive(Clone)]
pub struct KeepCase {
    pub has_changes: bool,
    pub first_parent: Option<u32>,
    pub mark: Option<u32>,
    pub parent_count: usize,
    pub was_merge: bool,
    pub is_degenerate: bool,
    pub prune_empty: u8,
    pub prune_degenerate: u8,
    pub no_ff: bool,
}

fn pm(x: u8) -> PruneMode {
    match x { 0 => PruneMode::Never, 1 => PruneMode::Auto, _ => PruneMode::Always }
}
fn pm_name(x: u8) -> &'static str {
    match x { 0 => "never", 1 => "auto", _ => "always" }
}
fn on(x: Option<u32>) -> String {
    match x { Some(v) => v.to_string(), None => "none".into() }
}

pub struct Keep;

impl SuiteDef for Keep {
    type In = KeepCase;
    fn eval(&self, c: &KeepCase) -> (String, String) {
        let req = format!("keepcommit {} {} {} {} {} {} {} {} {}", enc_bool(c.has_changes), on(c.first_parent), on(c.mark), c.parent_count,
            enc_bool(c.was_merge), enc_bool(c.is_degenerate), pm_name(c.prune_empty), pm_name(c.prune_degenerate), enc_bool(c.no_ff));
        let c = c.clone();
        (req, guarded(move || {
            let mut o = Options::default();
            o.prune_empty = pm(c.prune_empty);
            o.prune_degenerate = pm(c.prune_degenerate);
            o.no_ff = c.no_ff;
            enc_bool(should_keep_commit(c.has_changes, c.first_parent, c.mark, c.parent_count, c.was_merge, c.is_degenerate, &o)).to_string()
        }))
    }
    fn shrink(&self, _c: &KeepCase) -> Vec<KeepCase> { vec![] }
    /// the statement of C02, written out: a commit is dropped only if it is a non-root none of whose
    /// changes survive, (for a merge) its parents collapsed to fewer than two, and the setting allows it
    fn oracle(&self, c: &KeepCase, r: &str, _m: &mut Model) -> Option<String> {
        let consistent = c.is_degenerate == (c.was_merge && c.parent_count < 2);
        if !consistent { return None; } // rows the main loop cannot produce
        let may_drop = c.first_parent.is_some() && c.mark.is_some() && !c.has_changes && c.parent_count < 2
            && if c.was_merge { !c.no_ff && c.prune_degenerate != 0 } else { c.prune_empty != 0 };
        let want = enc_bool(!may_drop);
        if want != r { Some(format!("decision table row {:?}: documented keep={}, implementation {}", self.describe(c), want, r)) } else { None }
    }
    fn describe(&self, c: &KeepCase) -> Value {
        json!({"has_changes": c.has_changes, "first_parent": c.first_parent, "mark": c.mark, "parent_count": c.parent_count,
               "was_merge": c.was_merge, "is_degenerate": c.is_degenerate, "prune_empty": pm_name(c.prune_empty),
               "prune_degenerate": pm_name(c.prune_degenerate), "no_ff": c.no_ff})
    }
    fn fingerprint(&self, c: &KeepCase) -> Vec<u8> { self.describe(c).to_string().into_bytes() }
    fn parse(&self, v: &Value) -> Option<KeepCase> {
        let pmv = |s: &str| match s { "never" => 0u8, "auto" => 1, _ => 2 };
        Some(KeepCase {
            has_changes: v["has_changes"].as_bool()?, first_parent: v["first_parent"].as_u64().map(|x| x as u32),
            mark: v["mark"].as_u64().map(|x| x as u32), parent_count: v["parent_count"].as_u64()? as usize,
            was_merge: v["was_merge"].as_bool()?, is_degenerate: v["is_degenerate"].as_bool()?,
            prune_empty: pmv(v["prune_empty"].as_str()?), prune_degenerate: pmv(v["prune_degenerate"].as_str()?), no_ff: v["no_ff"].as_bool()?,
        })
    }
}

pub fn run_keep(_tier: &str, _seed: u64, model: &mut Model) -> Suite {
    let mut rep = Suite::new("keepcommit", "exhaustive: the whole input space of should_keep_commit — has_changes × first-parent present × mark present × parent count 0..3 × was_merge × is_degenerate × prune-empty {never,auto,always} × prune-degenerate {never,auto,always} × no-ff = 4608 rows. Non-trivial: a commit without surviving changes that has a parent and a mark (the rows where the policy decides).");
    let mut cases = Vec::new();
    for bits in 0..(2 * 2 * 2 * 4 * 2 * 2 * 3 * 3 * 2) {
        let mut b = bits;
        let mut take = |n: usize| { let v = b % n; b /= n; v };
        let c = KeepCase { has_changes: take(2) == 1, first_parent: if take(2) == 1 { Some(3) } else { None }, mark: if take(2) == 1 { Some(7) } else { None },
            parent_count: take(4), was_merge: take(2) == 1, is_degenerate: take(2) == 1, prune_empty: take(3) as u8, prune_degenerate: take(3) as u8, no_ff: take(2) == 1 };
        let nt = !c.has_changes && c.first_parent.is_some() && c.mark.is_some();
        cases.push((c, nt));
    }
    let mut it = cases.into_iter();
    run_suite(&Keep, &mut it, model, &mut rep);
    rep.exhaustive = true;
    rep
}

#[derive(Clone)]
pub struct ParentsCase {
    pub parents: Vec<Vec<u8>>,
    pub emitted: Vec<u32>,
    pub alias: Vec<(u32, u32)>,
}

pub struct Parents;

fn alias_str(a: &[(u32, u32)]) -> String {
    if a.is_empty() { "-".into() } else { a.iter().map(|(k, v)| format!("{k}>{v}")).collect::<Vec<_>>().join(",") }
}
fn marks_str(a: &[u32]) -> String {
    if a.is_empty() { "-".into() } else { a.iter().map(|k| k.to_string()).collect::<Vec<_>>().join(",") }
}

impl SuiteDef for Parents {
    type In = ParentsCase;
    fn eval(&self, c: &ParentsCase) -> (String, String) {
        let req = format!("finalizeparents {} {} {}", enc_list(&c.parents), marks_str(&c.emitted), alias_str(&c.alias));
        let c = c.clone();
        (req, guarded(move || {
            if c.parents.is_empty() { return ". none 0".to_string(); }
            let em: HashSet<u32> = c.emitted.iter().cloned().collect();
            let mut al: HashMap<u32, u32> = HashMap::new();
            for (k, v) in &c.alias { al.insert(*k, *v); }
            let (buf, fp, kept) = finalize_parent_lines(b"", &c.parents, b"", Some(999), &em, &al);
            format!("{} {} {}", enc(&buf), on(fp), kept)
        }))
    }
    fn shrink(&self, c: &ParentsCase) -> Vec<ParentsCase> {
        let mut out = Vec::new();
        for i in 0..c.parents.len() { let mut d = c.clone(); d.parents.remove(i); if !d.parents.is_empty() { out.push(d); } }
        for i in 0..c.alias.len() { let mut d = c.clone(); d.alias.remove(i); out.push(d); }
        for i in 0..c.emitted.len() { let mut d = c.clone(); d.emitted.remove(i); out.push(d); }
        out
    }
    /// C02: the emitted parents are the images of the original parents, in order, duplicates removed,
    /// the first one written as `from` (computed here from the statement; alias cycles excluded)
    fn oracle(&self, c: &ParentsCase, r: &str, _m: &mut Model) -> Option<String> {
        if r == "panic" { return Some("finalize_parent_lines panicked".into()); }
        let mut al: HashMap<u32, u32> = HashMap::new();
        for (k, v) in &c.alias { al.insert(*k, *v); }
        let canon = |m: u32| -> Option<u32> { let mut cur = m; for _ in 0..=al.len() { match al.get(&cur) { Some(&n) if n != cur => cur = n, Some(_) => return None, None => return Some(cur) } } None };
        let mut seen = BTreeSet::new();
        let mut lines: Vec<Vec<u8>> = Vec::new();
        for p in &c.parents {
            let rest = if p.starts_with(b"from ") { &p[5..] } else if p.starts_with(b"merge ") { &p[6..] } else { return None };
            let is_mark = rest.first() == Some(&b':') && rest.get(1).map_or(false, |b| b.is_ascii_digit());
            if is_mark {
                let digits: String = rest[1..].iter().take_while(|b| b.is_ascii_digit()).map(|&b| b as char).collect();
                let m: u32 = digits.parse().ok()?;
                let cm = canon(m)?;
                if !c.emitted.contains(&cm) || !seen.insert(cm) { continue; }
                lines.push(format!(":{cm}\n").into_bytes());
            } else {
                lines.push(rest.to_vec());
            }
        }
        let mut want = Vec::new();
        for (i, l) in lines.iter().enumerate() {
            want.extend_from_slice(if i == 0 { b"from " } else { b"merge " });
            want.extend_from_slice(l);
        }
        // exporter order is `from` then `merge`s; a stream that has `from` after `merge` keeps its kinds
        let exporter_order = c.parents.iter().skip(1).all(|p| p.starts_with(b"merge ")) && c.parents.first().map_or(true, |p| p.starts_with(b"from "));
        if !exporter_order { return None; }
        let got = r.split(' ').next().unwrap_or("");
        if enc(&want) != got { Some(format!("parents {:?} with emitted {:?}, aliases {:?}: expected {:?}, implementation {}", c.parents.iter().map(|p| show(p)).collect::<Vec<_>>(), c.emitted, c.alias, show(&want), got)) } else { None }
    }
    fn describe(&self, c: &ParentsCase) -> Value {
        json!({"parents_hex": enc_list(&c.parents), "parents": c.parents.iter().map(|p| show(p)).collect::<Vec<_>>(), "emitted": c.emitted, "alias": c.alias})
    }
    fn fingerprint(&self, c: &ParentsCase) -> Vec<u8> { self.describe(c).to_string().into_bytes() }
    fn parse(&self, v: &Value) -> Option<ParentsCase> {
        Some(ParentsCase {
            parents: dec_list(v["parents_hex"].as_str()?)?,
            emitted: v["emitted"].as_array()?.iter().filter_map(|x| x.as_u64().map(|y| y as u32)).collect(),
            alias: v["alias"].as_array()?.iter().filter_map(|x| Some((x[0].as_u64()? as u32, x[1].as_u64()? as u32))).collect(),
        })
    }
}

pub fn run_parents(tier: &str, seed: u64, model: &mut Model) -> Suite {
    let n = if tier == "thorough" { 2_000_000 } else { 150_000 };
    let mut rep = Suite::new("finalizeparents", &format!("{n} seeded parent lists (1–5 lines: from/merge with marks 1..8, raw 40-hex ids, malformed kinds, saturating marks) × emitted-mark sets × alias maps (chains, several marks onto one image, occasionally cycles and self-aliases). Non-trivial: a parent is dropped, canonicalised or de-duplicated; distinct by the whole case."));
    let mut rng = Rng::new(seed ^ 0xC02);
    let mut cases = Vec::new();
    for _ in 0..n {
        let np = 1 + rng.below(5);
        let mut parents = Vec::new();
        for i in 0..np {
            let kw: &[u8] = if i == 0 && rng.chance(9, 10) { b"from " } else if rng.chance(9, 10) { b"merge " } else { b"from " };
            let mut l = kw.to_vec();
            match rng.below(12) {
                0 => l.extend_from_slice(b"0123456789abcdef0123456789abcdef01234567"),
                1 => l.extend_from_slice(b":99999999999"),
                2 => l.extend_from_slice(b":"),
                3 => l.extend_from_slice(b"refs/heads/x"),
                _ => l.extend_from_slice(format!(":{}", 1 + rng.below(8)).as_bytes()),
            }
            if rng.chance(19, 20) { l.push(b'\n'); }
            parents.push(l);
        }
        let emitted: Vec<u32> = (1..=8u32).filter(|_| rng.chance(2, 3)).collect();
        let mut alias = Vec::new();
        for _ in 0..rng.below(5) {
            let k = 1 + rng.below(8) as u32;
            let v = if rng.chance(1, 15) { k } else { 1 + rng.below(8) as u32 };
            alias.push((k, v));
        }
        let c = ParentsCase { parents, emitted, alias };
        let (_, r) = Parents.eval(&c);
        let orig: Vec<u8> = c.parents.concat();
        let nt = !r.starts_with(&enc(&orig));
        cases.push((c, nt));
    }
    let mut it = cases.into_iter();
    run_suite(&Parents, &mut it, model, &mut rep);
    rep
}

/// small helpers of commit.rs: mark parsers, alias stanza, header ref renaming
pub fn run_misc(tier: &str, seed: u64, model: &mut Model) -> Suite {
    use crate::suites::simple::{Args, Simple};
    let n = if tier == "thorough" { 300_000 } else { 40_000 };
    let mut rep = Suite::new("commit-misc", &format!("{n} seeded lines through parse_mark_number / parse_from_mark (digits, saturation past u32, junk), build_alias, and rename_commit_header_ref with tag/branch rename prefixes (empty old/new prefix, prefix of the namespace, refs outside heads/tags). Non-trivial: a mark is parsed or a ref is renamed."));
    let def = Simple {
        eval: Box::new(|a: &Args| {
            // a[0] = op, rest = args
            let op = String::from_utf8_lossy(&a[0]).into_owned();
            match op.as_str() {
                "markline" => { let l = a[1].clone(); (format!("markline {}", enc(&a[1])), guarded(move || on(parse_mark_number(&l)))) }
                "frommark" => { let l = a[1].clone(); (format!("frommark {}", enc(&a[1])), guarded(move || on(parse_from_mark(&l)))) }
                "alias" => { let x: u32 = String::from_utf8_lossy(&a[1]).parse().unwrap(); let y: u32 = String::from_utf8_lossy(&a[2]).parse().unwrap();
                    (format!("alias {x} {y}"), guarded(move || enc(&build_alias(x, y)))) }
                _ => {
                    // renameref: a[1] tag old, a[2] tag new, a[3] branch old, a[4] branch new, a[5] flags, a[6] ref
                    let tr = if a[5][0] & 1 == 1 { Some((a[1].clone(), a[2].clone())) } else { None };
                    let br = if a[5][0] & 2 == 2 { Some((a[3].clone(), a[4].clone())) } else { None };
                    let f = |p: &Option<(Vec<u8>, Vec<u8>)>| match p { Some((x, y)) => format!("{}:{}", enc(x), enc(y)), None => "none".into() };
                    let req = format!("renameref {} {} {}", f(&tr), f(&br), enc(&a[6]));
                    let r = a[6].clone();
                    (req, guarded(move || {
                        let mut o = Options::default();
                        o.tag_rename = tr; o.branch_rename = br;
                        let mut line = b"commit ".to_vec(); line.extend_from_slice(&r); line.push(b'\n');
                        let mut rr = BTreeSet::new();
                        let out = rename_commit_header_ref(&line, &o, &mut rr);
                        enc(&out[7..out.len() - 1])
                    }))
                }
            }
        }),
        oracle: Box::new(|_a, r, _m| if r == "panic" { Some("commit.rs helper panicked".into()) } else { None }),
        shrinkable: vec![false, true, true, true, true, false, true],
        labels: vec!["op", "a1", "a2", "a3", "a4", "a5", "a6"],
    };
    let mut rng = Rng::new(seed ^ 0xC0AA17);
    let mut cases = Vec::new();
    for _ in 0..n {
        match rng.below(4) {
            0 => { let mut l = rng.pick(&[&b"mark :"[..], b"mark:", b"mark :", b"Mark :", b"mark : "]).to_vec(); l.extend(rng.bytes_from(b"0123456789x\n", 12)); cases.push((vec![b"markline".to_vec(), l], true)); }
            1 => { let mut l = rng.pick(&[&b"from :"[..], b"from ", b"from:", b"from :", b"merge :"]).to_vec(); l.extend(rng.bytes_from(b"0123456789a\n", 12)); cases.push((vec![b"frommark".to_vec(), l], true)); }
            2 => { cases.push((vec![b"alias".to_vec(), rng.below(5_000_000_00).to_string().into_bytes(), rng.below(99).to_string().into_bytes()], true)); }
            _ => {
                let pick = |rng: &mut Rng| rng.pick(&[&b""[..], b"v", b"rel/", b"ma", b"main", b"refs/", b"x"]).to_vec();
                let (a, b, c, d) = (pick(&mut rng), pick(&mut rng), pick(&mut rng), pick(&mut rng));
                let flags = vec![rng.below(4) as u8];
                let r = rng.pick(&[&b"refs/heads/main"[..], b"refs/heads/ma", b"refs/tags/v1", b"refs/tags/rel/1", b"refs/heads/", b"refs/tags/", b"refs/remotes/origin/main", b"refs/zzz/old", b"HEAD", b"refs/heads/v", b"refs/tags/main"]).to_vec();
                cases.push((vec![b"renameref".to_vec(), a, b, c, d, flags, r], true));
            }
        }
    }
    let mut it = cases.into_iter();
    run_suite(&def, &mut it, model, &mut rep);
    rep
}
