//! Hex wire format shared with Frrs/Wire.lean.
pub fn enc(b: &[u8]) -> String {
    if b.is_empty() {
        return ".".to_string();
    }
    let mut s = String::with_capacity(b.len() * 2);
    for x in b {
        s.push_str(&format!("{:02x}", x));
    }
    s
}
pub fn dec(s: &str) -> Option<Vec<u8>> {
    if s == "." {
        return Some(Vec::new());
    }
    if s.len() % 2 != 0 {
        return None;
    }
    (0..s.len())
        .step_by(2)
        .map(|i| u8::from_str_radix(&s[i..i + 2], 16).ok())
        .collect()
}
pub fn enc_list(l: &[Vec<u8>]) -> String {
    if l.is_empty() {
        return "-".to_string();
    }
    l.iter().map(|b| enc(b)).collect::<Vec<_>>().join(",")
}
pub fn enc_pairs(l: &[(Vec<u8>, Vec<u8>)]) -> String {
    if l.is_empty() {
        return "-".to_string();
    }
    l.iter()
        .map(|(a, b)| format!("{}:{}", enc(a), enc(b)))
        .collect::<Vec<_>>()
        .join(",")
}
pub fn enc_bool(b: bool) -> &'static str {
    if b {
        "1"
    } else {
        "0"
    }
}
pub fn enc_opt(b: &Option<Vec<u8>>) -> String {
    match b {
        None => "none".to_string(),
        Some(v) => enc(v),
    }
}
/// printable rendering for reports
pub fn show(b: &[u8]) -> String {
    let mut s = String::new();
    for &c in b {
        for e in std::ascii::escape_default(c) {
            s.push(e as char);
        }
    }
    s
}

pub fn dec_list(s: &str) -> Option<Vec<Vec<u8>>> {
    if s == "-" {
        return Some(Vec::new());
    }
    s.split(',').map(dec).collect()
}
pub fn dec_pairs(s: &str) -> Option<Vec<(Vec<u8>, Vec<u8>)>> {
    if s == "-" {
        return Some(Vec::new());
    }
    s.split(',')
        .map(|it| {
            let (a, b) = it.split_once(':')?;
            Some((dec(a)?, dec(b)?))
        })
        .collect()
}
