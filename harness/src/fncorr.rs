//! fncorr — function-level correspondence: the real functions of /repo (cargo feature
//! `verif-hooks`) and the Lean model's executable definitions on the same generated inputs.
//! usage: fncorr --model PATH --tier quick|thorough --seed N --out FILE suite [suite…]
use frrs_harness::model::Model;
use frrs_harness::suites;
use serde_json::json;

fn main() {
    let args: Vec<String> = std::env::args().skip(1).collect();
    if args.len() == 3 && args[0] == "--probe" {
        suites::clivalues::probe(&args[1], &args[2]);
    }
    let mut model_path = String::from("/verif/lean/.lake/build/bin/frrs-model");
    let mut tier = String::from("quick");
    let mut seed: u64 = 1;
    let mut out: Option<String> = None;
    let mut names: Vec<String> = Vec::new();
    let mut case_file: Option<String> = None;
    let mut i = 0;
    while i < args.len() {
        match args[i].as_str() {
            "--model" => { model_path = args[i + 1].clone(); i += 2; }
            "--tier" => { tier = args[i + 1].clone(); i += 2; }
            "--seed" => { seed = args[i + 1].parse().expect("seed"); i += 2; }
            "--out" => { out = Some(args[i + 1].clone()); i += 2; }
            "--case" => { case_file = Some(args[i + 1].clone()); i += 2; }
            s => { names.push(s.to_string()); i += 1; }
        }
    }
    // keep panics of the code under test quiet; they are counted, not printed
    std::panic::set_hook(Box::new(|_| {}));
    if let Some(cf) = case_file {
        // replay exactly one recorded case: {"suite": .., "input": ..}
        use frrs_harness::runner::replay_one;
        let v: serde_json::Value = serde_json::from_str(&std::fs::read_to_string(&cf).expect("case file")).expect("case json");
        let suite = v["suite"].as_str().unwrap_or("");
        let mut model = Model::spawn(&model_path).expect("spawn model driver");
        let r = match suite {
            "codec" => replay_one(&suites::codec::Codec, &v["input"], &mut model),
            "lines" => replay_one(&suites::lines::Lines, &v["input"], &mut model),
            "glob" => replay_one(&suites::glob::Glob, &v["input"], &mut model),
            "clipath" => replay_one(&suites::clipath::CliPath, &v["input"], &mut model),
            "replace" => replay_one(&suites::message::replace_suite(), &v["input"], &mut model),
            "litrules" => replay_one(&suites::message::rules_suite(), &v["input"], &mut model),
            "rxrules-blob" => replay_one(&suites::message::rxrules_suite(true), &v["input"], &mut model),
            "rxrules-msg" => replay_one(&suites::message::rxrules_suite(false), &v["input"], &mut model),
            "rxapply-blob" => replay_one(&suites::message::rxapply_suite(true), &v["input"], &mut model),
            "rxapply-msg" => replay_one(&suites::message::rxapply_suite(false), &v["input"], &mut model),
            "applylit" => replay_one(&suites::message::apply_suite(), &v["input"], &mut model),
            "template" => replay_one(&suites::message::template_suite(), &v["input"], &mut model),
            "timestamp" => replay_one(&suites::identity::timestamp_suite(), &v["input"], &mut model),
            "mailmap" => replay_one(&suites::identity::mailmap_suite(), &v["input"], &mut model),
            "keepcommit" => replay_one(&suites::commit::Keep, &v["input"], &mut model),
            "freshness" => replay_one(&suites::sanity::Fresh, &v["input"], &mut model),
            "striplookup" => replay_one(&suites::striplookup::suite(), &v["input"], &mut model),
            "dataheader" => replay_one(&suites::shorthash::dataheader_suite(), &v["input"], &mut model),
            "shorthash" => replay_one(&suites::shorthash::shorthash_suite(), &v["input"], &mut model),
            "clivalues" => replay_one(&suites::clivalues::suite(), &v["input"], &mut model),
            "cliargs" => replay_one(&suites::cliargs::suite(), &v["input"], &mut model),
            "topn" => replay_one(&suites::analyze::topn_suite(), &v["input"], &mut model),
            "normdetect" => replay_one(&suites::analyze::normalize_suite(), &v["input"], &mut model),
            "unpushed" => replay_one(&suites::sanity::Unpushed, &v["input"], &mut model),
            "finalizeparents" => replay_one(&suites::commit::Parents, &v["input"], &mut model),
            _ => json!({"error": "unknown suite"}),
        };
        println!("{}", serde_json::to_string_pretty(&r).unwrap());
        let bad = r["disagrees"].as_bool().unwrap_or(true) || !r["property_failure"].is_null();
        std::process::exit(if bad { 1 } else { 0 });
    }
    let mut results = Vec::new();
    let names: Vec<String> = names;
    for name in &names {
        let mut model = Model::spawn(&model_path).expect("spawn model driver");
        let t0 = std::time::Instant::now();
        let reps: Vec<frrs_harness::report::Suite> = match name.as_str() {
            "codec" => vec![suites::codec::run(&tier, seed, &mut model)],
            "lines" => vec![suites::lines::run(&tier, seed, &mut model)],
            "glob" => vec![suites::glob::run(&tier, seed, &mut model)],
            "clipath" => vec![suites::clipath::run(&tier, seed, &mut model)],
            "replace" => vec![suites::message::run_replace(&tier, seed, &mut model)],
            "rules" => suites::message::run_rules(&tier, seed, &mut model),
            "template" => vec![suites::message::run_template(&tier, seed, &mut model)],
            "timestamp" => vec![suites::identity::run_timestamp(&tier, seed, &mut model)],
            "authors" => suites::identity::run_authors(&tier, seed, &mut model),
            "mailmap" => vec![suites::identity::run_mailmap(&tier, seed, &mut model)],
            "sanity" => suites::sanity::run(&tier, seed, &mut model),
            "analyze" => suites::analyze::run_analyze(&tier, seed, &mut model),
            "striplookup" => suites::striplookup::run(&tier, seed, &mut model),
            "shorthash" => suites::shorthash::run(&tier, seed, &mut model),
            "clivalues" => suites::clivalues::run(&tier, seed, &mut model),
            "cliargs" => suites::cliargs::run(&tier, seed, &mut model),
            "detect" => suites::analyze::run_detect(&tier, seed, &mut model),
            "commit" => vec![suites::commit::run_keep(&tier, seed, &mut model), suites::commit::run_parents(&tier, seed, &mut model), suites::commit::run_misc(&tier, seed, &mut model)],
            other => {
                eprintln!("unknown suite {other}");
                std::process::exit(2);
            }
        };
        for rep in reps {
            let mut j = rep.to_json();
            j["wall_s"] = json!(t0.elapsed().as_secs_f64());
            eprintln!(
                "[fncorr] {}: {} cases, {} disagreements, {} oracle failures, {} panics, {:.1}s",
                rep.name, rep.cases, rep.disagreements.len(), rep.oracle_failures.len(), rep.panics, t0.elapsed().as_secs_f64()
            );
            results.push(j);
        }
    }
    suites::simple::cleanup_scratch();
    let doc = json!({"tier": tier, "seed": seed, "suites": results});
    let text = serde_json::to_string_pretty(&doc).unwrap();
    match out {
        Some(p) => std::fs::write(p, text).unwrap(),
        None => println!("{text}"),
    }
}
