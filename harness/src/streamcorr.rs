//! streamcorr — stream-level correspondence: the real tool under `--dry-run --fe_stream_override`
//! (a pure function stream × options → filtered stream, commit-map, ref-map, status) against the
//! Lean model's `Filter.runBytes` on the same generated streams; plus every cut offset and
//! single-line corruptions of short streams (C10).
//! usage: streamcorr --model PATH --tier quick|thorough --seed N --out FILE [--threads K] mode…
//!   modes: corr (random options), neutral (no-op options), cuts (all prefixes + corruptions)
use frrs_harness::gen::{History, OptSet};
use frrs_harness::model::Model;
use frrs_harness::rng::Rng;
use frrs_harness::streamcase::*;
use frrs_harness::wire::{enc, show};
use serde_json::{json, Value};
use std::collections::BTreeMap;
use std::sync::{Arc, Mutex};

#[derive(Clone)]
struct Case {
    id: u64,
    opts: OptSet,
    chunks: Vec<Vec<u8>>,
    stream: Vec<u8>,
    nmarks: u32,
    paths: Vec<Vec<u8>>,
    kind: &'static str,
    nontrivial: bool,
}

fn describe(c: &Case) -> Value {
    json!({
        "kind": c.kind, "case_id": c.id, "stream_hex": enc(&c.stream), "stream": show(&c.stream),
        "nmarks": c.nmarks, "paths_hex": c.paths.iter().map(|p| enc(p)).collect::<Vec<_>>(),
        "options": format!("{:?}", c.opts), "model_request_options": model_request(&c.opts, b"", c.nmarks, &c.paths),
    })
}

fn gen_cases(mode: &str, tier: &str, seed: u64) -> Vec<Case> {
    let n = match (mode, tier) {
        ("corr", "thorough") => 20000, ("corr", _) => 1200,
        ("neutral", "thorough") => 4000, ("neutral", _) => 300,
        ("cuts", "thorough") => 60, ("cuts", _) => 10,
        _ => 0,
    };
    let mut rng = Rng::new(seed ^ 0x57AE ^ mode.len() as u64);
    let mut out = Vec::new();
    let mut id = 0u64;
    for _ in 0..n {
        let mut r = rng.fork();
        let awkward = r.chance(1, 2);
        let h = History::generate(&mut r, awkward, if mode == "cuts" { 3 } else { 9 });
        let with_data = !r.chance(1, 6);
        let chunks = h.render_chunks(&mut r, with_data);
        let mut opts = match mode { "neutral" => OptSet::neutral(), _ => OptSet::generate(&mut r, &h) };
        // every fifth case runs in a repository where an earlier run left its commit-map (old-id translation of messages)
        if mode != "cuts" && id % 5 == 4 { opts.prior_map = Some(OptSet::gen_prior_map(&mut r)); }
        // every twenty-fifth case: an option set at the edge of what lib.rs validate_options accepts
        if mode == "corr" && id % 25 == 7 { opts.perturb_validity(&mut r); }
        {
            let msgs: Vec<Vec<u8>> = h.commits.iter().map(|c| c.msg.clone()).chain(h.tags.iter().map(|t| t.msg.clone())).collect();
            let blobs: Vec<Vec<u8>> = h.blobs.iter().map(|b| b.content.clone()).collect();
            fill_regex_tables(&mut opts, &msgs, &blobs);
        }
        let stream: Vec<u8> = chunks.concat();
        let base = Case { id, opts, chunks, stream, nmarks: h.max_mark() + 2, paths: h.all_paths(), kind: "generated", nontrivial: true };
        id += 1;
        if mode == "cuts" {
            // every proper prefix, then single-line corruptions
            for k in 0..base.stream.len() {
                let mut c = base.clone();
                c.id = id; id += 1;
                c.stream = base.stream[..k].to_vec();
                c.chunks = vec![c.stream.clone()];
                c.kind = "cut";
                out.push(c);
            }
            let lines: Vec<&[u8]> = base.stream.split_inclusive(|&b| b == b'\n').collect();
            for i in 0..lines.len() {
                for variant in 0..3 {
                    let mut ls: Vec<Vec<u8>> = lines.iter().map(|l| l.to_vec()).collect();
                    match variant {
                        0 => { ls.remove(i); }
                        1 => { let l = ls[i].clone(); ls.insert(i, l); }
                        _ => { if !ls[i].is_empty() { let j = r.below(ls[i].len()); ls[i][j] = *r.pick(b"x: \n0"); } }
                    }
                    let mut c = base.clone();
                    c.id = id; id += 1;
                    c.stream = ls.concat();
                    c.chunks = vec![c.stream.clone()];
                    c.kind = "corrupt-line";
                    // regex matching is a parameter of the model, supplied for the paths the generator knows: a corrupted line can
                    // name a path it does not know, so corrupted cases run without --path-regex (found by the thorough tier)
                    c.opts.regexes.clear();
                    out.push(c);
                }
            }
            // wrong data lengths
            for delta in [-1i64, 1, 100000, 600_000_000] {
                let s = String::from_utf8_lossy(&base.stream).into_owned();
                if let Some(pos) = s.find("data ") {
                    let end = s[pos..].find('\n').unwrap() + pos;
                    if let Ok(nn) = s[pos + 5..end].parse::<i64>() {
                        let mut c = base.clone();
                        c.id = id; id += 1;
                        let mut st = base.stream[..pos + 5].to_vec();
                        st.extend_from_slice(format!("{}", (nn + delta).max(0)).as_bytes());
                        st.extend_from_slice(&base.stream[end..]);
                        c.stream = st; c.chunks = vec![c.stream.clone()]; c.kind = "bad-data-length";
                        out.push(c);
                    }
                }
            }
        }
        out.push(base);
    }
    out
}

fn main() {
    let args: Vec<String> = std::env::args().skip(1).collect();
    let mut model_path = String::from("/verif/lean/.lake/build/bin/frrs-model");
    let (mut tier, mut seed, mut out, mut threads) = (String::from("quick"), 1u64, None::<String>, 8usize);
    let mut modes: Vec<String> = Vec::new();
    let mut case_file: Option<String> = None;
    let mut i = 0;
    while i < args.len() {
        match args[i].as_str() {
            "--model" => { model_path = args[i + 1].clone(); i += 2; }
            "--tier" => { tier = args[i + 1].clone(); i += 2; }
            "--seed" => { seed = args[i + 1].parse().unwrap(); i += 2; }
            "--out" => { out = Some(args[i + 1].clone()); i += 2; }
            "--threads" => { threads = args[i + 1].parse().unwrap(); i += 2; }
            "--case" => { case_file = Some(args[i + 1].clone()); i += 2; }
            m => { modes.push(m.to_string()); i += 1; }
        }
    }
    std::panic::set_hook(Box::new(|_| {}));
    if let Some(cf) = case_file {
        // replay: {"mode":…, "case_id":…, "seed":…, "tier":…}: regenerate the same case
        let v: Value = serde_json::from_str(&std::fs::read_to_string(cf).unwrap()).unwrap();
        let mode = v["mode"].as_str().unwrap().to_string();
        let cases = gen_cases(&mode, v["tier"].as_str().unwrap_or("quick"), v["seed"].as_u64().unwrap_or(1));
        let want = v["case_id"].as_u64().unwrap();
        let c = cases.into_iter().find(|c| c.id == want).expect("case id");
        let sc = Scratch::new("replay");
        let obs = observe(&sc, &c.opts, &c.stream, c.nmarks);
        let mut model = Model::spawn(&model_path).unwrap();
        let mr = normalise_model_reply(&model.ask(&model_request(&c.opts, &c.stream, c.nmarks, &c.paths)));
        let cut = |x: &str| if c.kind != "generated" { x.split(' ').take(2).collect::<Vec<_>>().join(" ") } else { x.to_string() };
        let dis = cut(&obs.reply()) != cut(&mr);
        let mut pf: Option<String> = None;
        if obs.status == "ok" && c.kind == "generated" {
            let req = model_request(&c.opts, &c.stream, c.nmarks, &c.paths);
            let oreq = format!("oracle-stream {} {} {} {}", &req["filter ".len()..], enc(&obs.filtered), enc(&obs.commit_map), enc(&obs.ref_map));
            let ans = model.ask(&oreq);
            if ans != "ok" { pf = Some(ans); }
        }
        println!("{}", serde_json::to_string_pretty(&json!({"input": describe(&c), "impl": obs.reply(), "model": mr, "disagrees": dis, "property_failure": pf})).unwrap());
        std::process::exit(if dis || pf.is_some() { 1 } else { 0 });
    }
    let mut parts = Vec::new();
    for mode in &modes {
        let t0 = std::time::Instant::now();
        let cases = gen_cases(mode, &tier, seed);
        let total = cases.len();
        let queue = Arc::new(Mutex::new(cases.into_iter().collect::<std::collections::VecDeque<_>>()));
        let results: Arc<Mutex<Vec<(Case, String, String)>>> = Arc::new(Mutex::new(Vec::new()));
        let oracle_fails: Arc<Mutex<Vec<(Case, String)>>> = Arc::new(Mutex::new(Vec::new()));
        let dist: Arc<Mutex<BTreeMap<String, u64>>> = Arc::new(Mutex::new(BTreeMap::new()));
        let mut handles = Vec::new();
        for t in 0..threads {
            let (queue, results, dist, model_path, oracle_fails) = (queue.clone(), results.clone(), dist.clone(), model_path.clone(), oracle_fails.clone());
            handles.push(std::thread::spawn(move || {
                let sc = Scratch::new(&format!("w{t}"));
                let mut model = Model::spawn(&model_path).expect("model");
                loop {
                    let c = match queue.lock().unwrap().pop_front() { Some(c) => c, None => break };
                    let obs = observe(&sc, &c.opts, &c.stream, c.nmarks);
                    let mr = normalise_model_reply(&model.ask(&model_request(&c.opts, &c.stream, c.nmarks, &c.paths)));
                    {
                        let mut d = dist.lock().unwrap();
                        *d.entry(format!("status-{}", obs.status)).or_insert(0) += 1;
                        *d.entry(format!("kind-{}", c.kind)).or_insert(0) += 1;
                        if obs.status == "ok" {
                            let zero = obs.commit_map.windows(41).filter(|w| w == b" 0000000000000000000000000000000000000000").count() as u64;
                            if zero > 0 { *d.entry("runs-with-pruned-commits".into()).or_insert(0) += 1; }
                            if !obs.ref_map.is_empty() { *d.entry("runs-with-renamed-refs".into()).or_insert(0) += 1; }
                            if obs.filtered != c.stream { *d.entry("runs-that-change-the-stream".into()).or_insert(0) += 1; }
                            if c.opts.rx_msg.as_ref().map_or(false, |t| !t.is_empty()) || c.opts.rx_blob.as_ref().map_or(false, |t| !t.is_empty()) {
                                *d.entry("runs-in-which-a-pattern-rule-fires".into()).or_insert(0) += 1;
                            }
                            if let Some(pm) = &c.opts.prior_map {
                                *d.entry("runs-after-an-earlier-commit-map".into()).or_insert(0) += 1;
                                // the translator has something to do: a message cites an id the earlier map records
                                let cites = pm.split(|b| *b == b'\n').filter(|l| l.len() > 12).any(|l| {
                                    let k = l[..12].to_ascii_lowercase();
                                    c.stream.windows(12).any(|w| w.to_ascii_lowercase() == k)
                                });
                                if cites { *d.entry("runs-whose-messages-cite-a-recorded-id".into()).or_insert(0) += 1; }
                            }
                        }
                    }
                    let r = obs.reply();
                    // the property oracles, evaluated on the implementation's own outputs
                    if obs.status == "ok" && c.kind == "generated" {
                        let req = model_request(&c.opts, &c.stream, c.nmarks, &c.paths);
                        let oreq = format!("oracle-stream {} {} {} {}", &req["filter ".len()..], enc(&obs.filtered), enc(&obs.commit_map), enc(&obs.ref_map));
                        let ans = model.ask(&oreq);
                        if ans != "ok" {
                            oracle_fails.lock().unwrap().push((c.clone(), ans));
                        }
                    }
                    // corrupted and truncated streams: status and filtered stream are compared; the two map files are not. No
                    // property speaks about the maps of a run on a malformed stream, and finalize.rs has a fallback the model does not
                    // carry (when no commit was recorded it scans the filtered file as text, blob payloads included — found by the
                    // thorough tier on a stream whose first blob had swallowed every commit)
                    let (r, mr) = if c.kind != "generated" {
                        let cut = |x: &str| x.split(' ').take(2).collect::<Vec<_>>().join(" ");
                        (cut(&r), cut(&mr))
                    } else { (r, mr) };
                    if r != mr {
                        results.lock().unwrap().push((c, r, mr));
                    }
                }
            }));
        }
        for h in handles { h.join().unwrap(); }
        let mut dis: Vec<Value> = Vec::new();
        let mut rs = results.lock().unwrap();
        rs.sort_by_key(|x| x.0.stream.len());
        for (c, r, mr) in rs.iter().take(5) {
            dis.push(json!({"input": describe(c), "mode": mode, "case_id": c.id, "impl": r, "model": mr}));
        }
        let mut ofs = oracle_fails.lock().unwrap();
        ofs.sort_by_key(|x| x.0.stream.len());
        let of_json: Vec<Value> = ofs.iter().take(8).map(|(c, a)| json!({"input": describe(c), "mode": mode, "case_id": c.id, "property_failure": a})).collect();
        let of_count = ofs.len();
        let d = dist.lock().unwrap().clone();
        let nontrivial = d.get("runs-that-change-the-stream").cloned().unwrap_or(0) + d.get("status-err").cloned().unwrap_or(0);
        eprintln!("[streamcorr] {mode}: {total} cases, {} disagreements, {} oracle failures, {:.1}s {:?}", rs.len(), of_count, t0.elapsed().as_secs_f64(), d);
        parts.push(json!({
            "suite": format!("stream-{mode}"), "evaluations": total, "distinct_nontrivial": nontrivial,
            "rule": match mode.as_str() {
                "corr" => "generated histories (1–9 commits: several roots, merges, octopus, chains, refs sharing commits, lightweight/annotated tags, refs outside heads/tags, awkward path bytes in all exporter renderings, messages that look like stream commands, blobs around the size limit, with and without blob data) rendered as exporter-shaped streams × generated option sets (selectors, invert, renames, ref renames, size/id stripping, literal message/blob rules, identity files, dates, pruning modes); the real tool under --dry-run --fe_stream_override vs the model: status, fast-export.filtered, commit-map (with a synthetic marks file), ref-map byte for byte. Non-trivial: the run changes the stream or fails; each case has its own sub-seed.",
                "neutral" => "the same histories with no option and pruning disabled. Non-trivial: the stream is re-rendered differently (quoting, dropped blank lines, moved tag resets).",
                _ => "every proper prefix (cut at every byte offset) of short generated streams, every single-line deletion/duplication/garbling, wrong data lengths: status and outputs vs the model. Non-trivial: the run fails.",
            },
            "distribution": d, "oracle_failures": of_json, "oracle_failure_count": of_count, "disagreements": dis, "disagreement_count": rs.len(), "wall_s": t0.elapsed().as_secs_f64(),
            "samples": [],
        }));
    }
    let doc = json!({"tier": tier, "seed": seed, "suites": parts});
    let text = serde_json::to_string_pretty(&doc).unwrap();
    match out { Some(p) => std::fs::write(p, text).unwrap(), None => println!("{text}") }
}
