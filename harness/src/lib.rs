//! Shared pieces of the correspondence harness: PRNG, hex wire format, model-driver handle.
pub mod model;
pub mod rng;
pub mod wire;
pub mod gen;
pub mod report;
pub mod runner;
pub mod streamcase;
pub mod suites;
