#!/usr/bin/env python3
"""Regenerate /verif/MANIFEST.json from checks/specs.py + checks/manifest_text.py (kept valid at all times)."""
import json, os, sys
sys.path.insert(0, os.path.join(os.path.dirname(os.path.abspath(__file__)), '..'))
from checks import specs
from checks.manifest_text import TEXT, NOT_YET

props = [json.loads(l) for l in open('/verif/properties.jsonl')]
checks, na = [], []
for p in props:
    pid = p['id']
    if pid in specs.SPECS and pid in TEXT:
        t = TEXT[pid]
        checks.append({
            'property_id': pid,
            'quick_cmd': f'bin/check {pid} --tier quick',
            'thorough_cmd': f'bin/check {pid} --tier thorough',
            'evidence_file': f'/verif/evidence/{pid}.json',
            'replay_cmd_template': f'bin/check {pid} --replay {{path}}',
            'engine': 'lean4-frrs',
            'level_claimed': {'category': 'proof', 'text': t['text'], 'design_ref': t.get('design_ref', f'DESIGN.md §7 {pid}')},
            'level_note': t['note'],
            'technique': t['technique'],
        })
    else:
        na.append({'property_id': pid, 'reason': NOT_YET.get(pid, 'check not built yet in this commit; the Lean model of this part is under construction (see DESIGN.md §10 build order)')})
m = {
    'version': 1,
    'setup_cmd': 'bin/setup',
    'hooks': {
        'guard': 'cargo feature verif-hooks (filter-repo-rs/Cargo.toml)',
        'enable': 'the harness crate /verif/harness depends on /repo/filter-repo-rs with features = ["verif-hooks"]; cargo build --offline in /verif/harness',
        'baseline_off_cmd': 'cd /repo/filter-repo-rs && cargo nextest run --workspace --no-fail-fast --test-threads 8 --offline',
        'source_commits': [l.strip() for l in open('/verif/checks/hook_commits.txt') if l.strip()],
        'add_only': True,
    },
    'engines': [{
        'name': 'lean4-frrs', 'path': '/verif/lean',
        'serves_properties': [c['property_id'] for c in checks],
        'kind_free_text': 'Lean 4.33 package Frrs: hand-written executable model + theorems (Frrs/Props/Cxx.lean), native model driver frrs-model; Rust harness /verif/harness (fncorr, streamcorr, extract) ties the model to /repo by differential execution; bin/check decides',
    }],
    'checks': checks,
    'not_applicable': na,
    'notes': 'Machine-checked proof in Lean 4 over a model tied to /repo by correspondence runs on every check. See DESIGN.md. known_findings.txt lists recorded findings and fixed defects.',
}
json.dump(m, open('/verif/MANIFEST.json', 'w'), indent=1)
print(len(checks), 'checks,', len(na), 'not claimed')
