#!/usr/bin/env python3
"""Print the prompt given to a mutation-seeding sub-agent for one property (property text only)."""
import json, sys
pid = sys.argv[1]
for l in open('/verif/properties.jsonl'):
    p = json.loads(l)
    if p['id'] == pid:
        break
else:
    raise SystemExit('no such property')
wt = f'/tmp/wt-{pid}'
out = f'/tmp/seed-out/{pid}'
print(f"""You are helping test a verification effort by seeding realistic bugs. You work ONLY inside the scratch git worktree {wt} (a checkout of the Rust project filter-repo-rs, a reimplementation of git-filter-repo: it streams `git fast-export` output, rewrites paths, blobs, messages, identities and refs, and pipes the result into `git fast-import`). Never touch /repo or /verif, and do not read anything under /verif. There is no network; use `--offline` with cargo (set CARGO_NET_OFFLINE=true). To keep disk use down, build with `CARGO_TARGET_DIR={wt}/target`.

Here is a semantic property of the tool that should hold:

  id: {p['id']}
  title: {p['title']}
  statement: {p['statement']}
  quantified over: {p['quantifier']['text']}
  relevant files: {', '.join(p['anchors']['files'])}

Your task: produce TWO independent source changes (each a separate patch against the clean worktree HEAD) to the crate under {wt}/filter-repo-rs/src that BREAK this property while (a) still compiling and (b) still passing the entire existing test suite, run as:
    cd {wt}/filter-repo-rs && CARGO_NET_OFFLINE=true CARGO_TARGET_DIR={wt}/target cargo nextest run --workspace --no-fail-fast --test-threads 8 --offline
(all 453 tests must pass with your change). The changes must look like plausible mistakes a developer could make (an off-by-one, a wrong boundary, a dropped or reordered step, a refactor that misses a case, two sites that each look fine alone) and must need something SPECIFIC to manifest - an unusual input, a multi-step sequence, a particular option combination, a boundary size, a crash/fault at a particular point - not something ordinary use would expose at once. Do not just delete the feature or special-case a magic string. The two changes should touch different mechanisms if possible.

For each change k in {{1,2}} write into {out}-{{k}}/ :
  - patch.diff : `git -C {wt} diff` of exactly that change against HEAD (source files only)
  - demo.sh (or demo.rs / a cargo test file plus a note how to run it): a self-contained demonstration that exits non-zero (or fails) on the changed tree and exits 0 on the unchanged tree. It may build the CLI (`cargo build --offline`, binary at {wt}/target/debug/filter-repo-rs) and create throwaway git repositories under a fresh mktemp -d directory (git 2.39 is installed; set user.name/user.email in them). The demo takes the path of the binary (or of the worktree) as its first argument.
  - meta.json : {{"property": "{p['id']}", "summary": "<one paragraph: what the change is>", "needs": "<what specific input/sequence/option combination it needs to manifest>", "files": [..], "verified": "<what you ran and observed: test-suite result with the change, demo result with and without>"}}
After producing each patch, restore the worktree to clean HEAD (`git -C {wt} checkout -- .`) before starting the next one, and leave the worktree clean at the end. You MUST actually run the full test suite with each change applied and actually run each demo against both the changed and the unchanged build, and report the real results. If a change turns out to fail an existing test, revise it. Finish with a short report listing the two output directories and the verified results.""")
