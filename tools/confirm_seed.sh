#!/bin/bash
# confirm_seed.sh <seed-dir> <worktree>: the change compiles, the full suite passes with it,
# the demonstration fails with it and passes without it. Prints one RESULT line.
d=$1; wt=$2
export CARGO_NET_OFFLINE=true CARGO_TARGET_DIR=$wt/target
git -C $wt checkout -q -- . && git -C $wt clean -fdq -e target
cd $wt/filter-repo-rs
git -C $wt apply $d/patch.diff || { echo "RESULT $d apply-failed"; exit 1; }
cargo build --offline >/dev/null 2>&1 || { echo "RESULT $d build-failed"; git -C $wt checkout -q -- .; exit 1; }
t=$(cargo nextest run --workspace --no-fail-fast --test-threads 8 --offline 2>&1 | grep -E "^\s+Summary" | tail -1)
demo=$d/demo.sh
if [ -f $demo ]; then bash $demo $wt/target/debug/filter-repo-rs >/tmp/demo-with.log 2>&1; with=$?; else with=na; fi
git -C $wt checkout -q -- . && git -C $wt clean -fdq -e target
cargo build --offline >/dev/null 2>&1
if [ -f $demo ]; then bash $demo $wt/target/debug/filter-repo-rs >/tmp/demo-without.log 2>&1; without=$?; else without=na; fi
echo "RESULT $d tests=[$t] demo_with_change=$with demo_without=$without"
