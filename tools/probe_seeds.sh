#!/bin/bash
# probe_seeds.sh <seed>... : run every quick check on the unchanged tree with other seeds than the registered one, to find
# alarms the registered seed happens not to draw (a VIOLATION here is either a defect of /repo or a false alarm of the
# machinery - see DESIGN.md 0.5, C07 with seed 2). Evidence files are restored afterwards: the committed evidence is the
# quick tier with seed 1.
cd /verif
git -C /repo diff --quiet || { echo "/repo has local changes; refusing"; exit 2; }
for sd in "$@"; do
  for p in $(python3 -c "import json;print(' '.join(c['property_id'] for c in json.load(open('MANIFEST.json'))['checks']))"); do
    out=$(VERIF_SEED=$sd bin/check $p --tier quick 2>&1); rc=$?
    echo "$p seed=$sd rc=$rc $(echo "$out" | grep -c '^VIOLATION') violation(s)"
    [ $rc -ne 0 ] && echo "$out" | grep -E '^VIOLATION|^  ' | head -6
  done
done
git checkout -q -- evidence
