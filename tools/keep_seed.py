#!/usr/bin/env python3
"""keep_seed.py <name> <confirm-log-line...>: copy a confirmed seeded change into /verif/seeded/<name>/"""
import json, os, shutil, sys, re
name = sys.argv[1]
src = f'/tmp/seed-out/{name}'
dst = f'/verif/seeded/{name}'
os.makedirs(dst, exist_ok=True)
for f in os.listdir(src):
    if os.path.isfile(os.path.join(src, f)):
        shutil.copy(os.path.join(src, f), dst)
meta = json.load(open(os.path.join(dst, 'meta.json')))
line = ' '.join(sys.argv[2:])
meta['confirmed_by_builder'] = {
    'ran': 'tools/confirm_seed.sh in a scratch worktree of /repo HEAD: git apply patch.diff; cargo build --offline; cargo nextest run --workspace --no-fail-fast --test-threads 8 --offline; demo.sh on the changed build; checkout; rebuild; demo.sh on the unchanged build',
    'result': line,
}
json.dump(meta, open(os.path.join(dst, 'meta.json'), 'w'), indent=1)
print('kept', dst)
