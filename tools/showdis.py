#!/usr/bin/env python3
import json, sys, binascii
d=json.load(open(sys.argv[1]))
def dec(h): return b'' if h=='.' else binascii.unhexlify(h)
for s in d['suites']:
    print(s['suite'], s['evaluations'], s.get('disagreement_count'))
    for x in s['disagreements'][:int(sys.argv[2]) if len(sys.argv)>2 else 2]:
        print('OPTIONS:', x['input']['options'])
        print('STREAM:\n'+dec(x['input']['stream_hex']).decode('latin1')[:2500])
        i=x['impl'].split(' '); m=x['model'].split(' ')
        print('IMPL status',i[0],'MODEL status',m[0])
        if len(i)>1 and len(m)>1:
            for k,name in ((1,'filtered'),(2,'commit-map'),(3,'ref-map')):
                a,b=dec(i[k]),dec(m[k])
                if a!=b:
                    print('DIFF in',name); print('impl:\n'+a.decode('latin1')[:2500]); print('model:\n'+b.decode('latin1')[:2500])
        print('='*70)
