#!/bin/bash
# run_seed.sh <seed-dir> <property>... : apply a seeded change to /repo, run the quick checks of the given
# properties, print their verdict lines, and undo the change straight afterwards.
d=$1; shift
cd /verif
git -C /repo diff --quiet || { echo "/repo has local changes; refusing"; exit 2; }
git -C /repo apply $d/patch.diff || { echo "SEED $d apply-failed"; exit 2; }
trap 'git -C /repo checkout -- . ; git -C /repo clean -fdq -e target; (cd /repo/filter-repo-rs && cargo build --offline >/dev/null 2>&1)' EXIT
for p in "$@"; do
  out=$(bin/check $p --tier quick 2>&1)
  rc=$?
  echo "SEED $(basename $d) check=$p rc=$rc $(echo "$out" | grep -E "^VIOLATION|^KNOWN-FINDING" | head -3 | tr '\n' '|')"
  echo "$out" | grep -E "^\[$p\]|proof obligation|differ|fails" | head -4
done
