import sys, os, random, subprocess, tempfile, shutil
sys.argv_backup = sys.argv
import importlib.util
spec = importlib.util.spec_from_file_location("fz", "/tmp/x/fuzz.py")
src = open("/tmp/x/fuzz.py").read().replace("\nmain()\n", "\n")
ns = {}
exec(compile(src, "fuzz", "exec"), ns)
s = int(sys.argv[1]); mode = sys.argv[2]
rng = random.Random(s)
d = tempfile.mkdtemp(prefix="dg"); repo = os.path.join(d, "r"); os.mkdir(repo)
subprocess.run(["git", "init", "-q", repo], check=True)
ns["git"](repo, "config", "user.name", "T"); ns["git"](repo, "config", "user.email", "t@e")
commits, refs = ns["gen"](rng, rng.randrange(2, 11), weird_refs=(mode == "weird"))
marks = ns["build"](repo, commits, refs)
print("commits:")
for i, c in enumerate(commits): print(" ", i, marks[i][:7], "parents", c["parents"], "paths", sorted(c["tree"]))
print("refs:", {k.decode(): v for k, v in refs.items()})
print(subprocess.run("git -C %s log --all --graph --oneline --decorate=full | cat" % repo, shell=True, capture_output=True).stdout.decode(errors="replace"))
print("---- export skeleton")
print(subprocess.run("git -C %s fast-export --all --show-original-ids --mark-tags --use-done-feature| grep -a '^reset\|^commit\|^from\|^merge\|^tag \|^mark\|^done\|^M \|^D '" % repo, shell=True, capture_output=True).stdout.decode(errors="replace"))
r = subprocess.run([ns["FR"], "--force", "--quiet", "--prune-empty", "never", "--prune-degenerate", "never"], cwd=repo, capture_output=True)
print("rc", r.returncode, r.stderr.decode(errors="replace")[-400:])
print(subprocess.run("git -C %s log --all --graph --oneline --decorate=full | cat" % repo, shell=True, capture_output=True).stdout.decode(errors="replace"))
print("---- filtered skeleton")
print(subprocess.run("grep -a '^reset\|^commit\|^from\|^merge\|^tag \|^mark\|^done\|^alias\|^M \|^D ' %s/.git/filter-repo/fast-export.filtered" % repo, shell=True, capture_output=True).stdout.decode(errors="replace"))
shutil.rmtree(d)
