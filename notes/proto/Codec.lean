/- Round-0 feasibility prototype (scratch, not the framework): `dequote_c_style_bytes` as a structural
   state machine, `enquote_c_style_bytes` body, and the unbounded round trip. -/
namespace Proto

abbrev Bytes := List UInt8

def isOct (b : UInt8) : Bool := 0x30 ≤ b && b ≤ 0x37

def enqByte (b : UInt8) : Bytes :=
  if b == 0x22 then [0x5c, 0x22]
  else if b == 0x5c then [0x5c, 0x5c]
  else if b == 0x0a then [0x5c, 0x6e]
  else if b == 0x09 then [0x5c, 0x74]
  else if b == 0x0d then [0x5c, 0x72]
  else if b ≤ 0x1f || 0x7f ≤ b then
    [0x5c, ((b >>> 6) &&& 7) + 0x30, ((b >>> 3) &&& 7) + 0x30, (b &&& 7) + 0x30]
  else [b]

def enqBody : Bytes → Bytes
  | [] => []
  | b :: bs => enqByte b ++ enqBody bs

inductive St where
  | normal
  | esc
  | oct (v : UInt32) (count : Nat)

def deqAux : St → Bytes → Bytes
  | .normal, [] => []
  | .esc, [] => [0x5c]
  | .oct v _, [] => [v.toUInt8]
  | .normal, b :: r => if b == 0x5c then deqAux .esc r else b :: deqAux .normal r
  | .esc, c :: r =>
    if c == 0x5c then 0x5c :: deqAux .normal r
    else if c == 0x22 then 0x22 :: deqAux .normal r
    else if c == 0x6e then 0x0a :: deqAux .normal r
    else if c == 0x74 then 0x09 :: deqAux .normal r
    else if c == 0x72 then 0x0d :: deqAux .normal r
    else if isOct c then deqAux (.oct (c - 0x30).toUInt32 0) r
    else c :: deqAux .normal r
  | .oct v n, d :: r =>
    if n < 2 && isOct d then deqAux (.oct ((v <<< 3) ||| (d - 0x30).toUInt32) (n + 1)) r
    else v.toUInt8 :: (if d == 0x5c then deqAux .esc r else d :: deqAux .normal r)

def deq (s : Bytes) : Bytes := deqAux .normal s

theorem oct_facts : ∀ n : Nat, n < 256 →
    let b := UInt8.ofNat n
    isOct (((b >>> 6) &&& 7) + 0x30) = true ∧ isOct (((b >>> 3) &&& 7) + 0x30) = true ∧
    isOct ((b &&& 7) + 0x30) = true ∧
    ((((((((b >>> 6) &&& 7) + 0x30) - 0x30).toUInt32 <<< 3) |||
        ((((b >>> 3) &&& 7) + 0x30) - 0x30).toUInt32) <<< 3) |||
        (((b &&& 7) + 0x30) - 0x30).toUInt32).toUInt8 = b := by
  decide +kernel

theorem oct_facts' (b : UInt8) :
    isOct (((b >>> 6) &&& 7) + 0x30) = true ∧ isOct (((b >>> 3) &&& 7) + 0x30) = true ∧
    isOct ((b &&& 7) + 0x30) = true ∧
    ((((((((b >>> 6) &&& 7) + 0x30) - 0x30).toUInt32 <<< 3) |||
        ((((b >>> 3) &&& 7) + 0x30) - 0x30).toUInt32) <<< 3) |||
        (((b &&& 7) + 0x30) - 0x30).toUInt32).toUInt8 = b := by
  have h := oct_facts b.toNat b.toNat_lt
  simpa using h

theorem oct_ne : ∀ n : Nat, n < 256 →
    let d := UInt8.ofNat n
    isOct d = true → (d == 0x5c) = false ∧ (d == 0x22) = false ∧
        (d == 0x6e) = false ∧ (d == 0x74) = false ∧ (d == 0x72) = false := by
  decide +kernel

theorem oct_done (v : UInt32) (rest : Bytes) :
    deqAux (.oct v 2) rest = v.toUInt8 :: deqAux .normal rest := by
  cases rest with
  | nil => simp [deqAux]
  | cons d r => simp [deqAux]

theorem deq_enqByte (b : UInt8) (rest : Bytes) :
    deqAux .normal (enqByte b ++ rest) = b :: deqAux .normal rest := by
  unfold enqByte
  split
  · next h => simp at h; subst h; simp [deqAux]
  split
  · next h => simp at h; subst h; simp [deqAux]
  split
  · next h => simp at h; subst h; simp [deqAux]
  split
  · next h => simp at h; subst h; simp [deqAux]
  split
  · next h => simp at h; subst h; simp [deqAux]
  split
  · obtain ⟨h1, h2, h3, h4⟩ := oct_facts' b
    have n1 : ∀ d : UInt8, isOct d = true → (d == 0x5c) = false ∧ (d == 0x22) = false ∧
        (d == 0x6e) = false ∧ (d == 0x74) = false ∧ (d == 0x72) = false := by
      intro d hd
      have := oct_ne d.toNat d.toNat_lt
      simp at this
      simpa using this hd
    obtain ⟨a1, a2, a3, a4, a5⟩ := n1 _ h1
    simp only [List.cons_append, List.nil_append, deqAux, a1, a2, a3, a4, a5, h1, h2, h3,
      Bool.false_eq_true, if_false, if_true, beq_self_eq_true, Nat.zero_lt_succ, decide_true,
      Bool.and_self, Nat.lt_add_one, Bool.true_and, Nat.reduceLT, Nat.reduceAdd, oct_done, h4]
  · next h1 h2 h3 h4 h5 h6 =>
    simp only [List.cons_append, List.nil_append, deqAux]
    have : (b == 0x5c) = false := by simpa using h2
    simp [this]

theorem deq_enq (p rest : Bytes) :
    deqAux .normal (enqBody p ++ rest) = p ++ deqAux .normal rest := by
  induction p with
  | nil => simp [enqBody]
  | cons b bs ih => simp [enqBody, List.append_assoc, deq_enqByte, ih]

/-- C15 core: for every byte string, unquoting the quoted body gives the string back. -/
theorem roundtrip (p : Bytes) : deq (enqBody p) = p := by
  have := deq_enq p []
  simpa [deq, deqAux] using this

end Proto
