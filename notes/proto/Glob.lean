/- Round-0 feasibility prototype (scratch, not the framework): the glob matcher with fix N6,
   its three loop lemmas, the declarative spec GM, and glob_correct for all patterns/texts.
   Built with Lean 4.33 core only; axioms: propext, Quot.sound (+Classical.choice via simp). -/
namespace G

abbrev Bytes := List UInt8
def star : UInt8 := 0x2a
def qm : UInt8 := 0x3f
def slash : UInt8 := 0x2f

/-- `**`: try `k` at every offset -/
def loopAny (k : Bytes → Bool) : Bytes → Bool
  | [] => k []
  | c :: t => k (c :: t) || loopAny k t

/-- `*`: try `k` at every offset up to (not across) a '/' -/
def loopSeg (k : Bytes → Bool) : Bytes → Bool
  | [] => k []
  | c :: t => k (c :: t) || (c != slash && loopSeg k t)

/-- `**/` (after fix N6): offset 0 or just after a '/' -/
def loopDir (k : Bytes → Bool) : Bool → Bytes → Bool
  | ok, [] => ok && k []
  | ok, c :: t => (ok && k (c :: t)) || loopDir k (c == slash) t

/-- mirror of `match_from`; fuel bounds the recursion depth on the pattern -/
def gmF : Nat → Bytes → Bytes → Bool
  | 0, _, _ => false
  | _ + 1, [], t => t.isEmpty
  | f + 1, c :: p, t =>
    if c == star then
      match p with
      | c2 :: p2 =>
        if c2 == star then
          match p2 with
          | c3 :: p3 => if c3 == slash then loopDir (gmF f p3) true t else loopAny (gmF f p2) t
          | [] => loopAny (gmF f p2) t
        else loopSeg (gmF f p) t
      | [] => loopSeg (gmF f p) t
    else if c == qm then
      match t with
      | [] => false
      | d :: t' => d != slash && gmF f p t'
    else
      match t with
      | [] => false
      | d :: t' => c == d && gmF f p t'

def gm (p t : Bytes) : Bool := gmF (p.length + 1) p t

theorem loopAny_iff (k : Bytes → Bool) (t : Bytes) :
    loopAny k t = true ↔ ∃ u v, t = u ++ v ∧ k v = true := by
  induction t with
  | nil =>
    simp only [loopAny]
    constructor
    · intro h; exact ⟨[], [], rfl, h⟩
    · rintro ⟨u, v, h, hk⟩
      have : v = [] := by
        have := congrArg List.length h; simp at this; exact List.eq_nil_of_length_eq_zero (by omega)
      subst this; exact hk
  | cons c t ih =>
    simp only [loopAny, Bool.or_eq_true, ih]
    constructor
    · rintro (h | ⟨u, v, h, hk⟩)
      · exact ⟨[], c :: t, rfl, h⟩
      · exact ⟨c :: u, v, by simp [h], hk⟩
    · rintro ⟨u, v, h, hk⟩
      cases u with
      | nil => left; simp at h; subst h; exact hk
      | cons d u => right; simp at h; exact ⟨u, v, h.2, hk⟩

theorem loopSeg_iff (k : Bytes → Bool) (t : Bytes) :
    loopSeg k t = true ↔ ∃ u v, t = u ++ v ∧ (∀ x ∈ u, x ≠ slash) ∧ k v = true := by
  induction t with
  | nil =>
    simp only [loopSeg]
    constructor
    · intro h; exact ⟨[], [], rfl, by simp, h⟩
    · rintro ⟨u, v, h, _, hk⟩
      have : v = [] := by
        have := congrArg List.length h; simp at this; exact List.eq_nil_of_length_eq_zero (by omega)
      subst this; exact hk
  | cons c t ih =>
    simp only [loopSeg, Bool.or_eq_true, Bool.and_eq_true, ih]
    constructor
    · rintro (h | ⟨hc, u, v, h, hu, hk⟩)
      · exact ⟨[], c :: t, rfl, by simp, h⟩
      · refine ⟨c :: u, v, by simp [h], ?_, hk⟩
        intro x hx
        simp at hx
        rcases hx with rfl | hx
        · simpa using hc
        · exact hu x hx
    · rintro ⟨u, v, h, hu, hk⟩
      cases u with
      | nil => left; simp at h; subst h; exact hk
      | cons d u =>
        right; simp at h
        obtain ⟨rfl, h⟩ := h
        refine ⟨?_, u, v, h, fun x hx => hu x (by simp [hx]), hk⟩
        have := hu c (by simp)
        simpa using this

theorem loopDir_iff (k : Bytes → Bool) (ok : Bool) (t : Bytes) :
    loopDir k ok t = true ↔ (ok = true ∧ k t = true) ∨ ∃ u v, t = u ++ slash :: v ∧ k v = true := by
  induction t generalizing ok with
  | nil =>
    simp only [loopDir, Bool.and_eq_true]
    constructor
    · intro h; exact Or.inl h
    · rintro (h | ⟨u, v, h, _⟩)
      · exact h
      · have := congrArg List.length h; simp at this
  | cons c t ih =>
    simp only [loopDir, Bool.or_eq_true, Bool.and_eq_true, ih]
    constructor
    · rintro (h | ⟨hc, hk⟩ | ⟨u, v, h, hk⟩)
      · exact Or.inl h
      · right; refine ⟨[], t, ?_, hk⟩; simp at hc; simp [hc]
      · right; exact ⟨c :: u, v, by simp [h], hk⟩
    · rintro (h | ⟨u, v, h, hk⟩)
      · exact Or.inl h
      · right
        cases u with
        | nil => simp at h; obtain ⟨rfl, rfl⟩ := h; left; exact ⟨by simp, hk⟩
        | cons d u => simp at h; right; exact ⟨u, v, h.2, hk⟩

/-- Declarative meaning of a path glob (statement of C16 with `**/` = zero or more directories). -/
inductive GM : Bytes → Bytes → Prop
  | nil : GM [] []
  | lit {c p t} : c ≠ star → c ≠ qm → GM p t → GM (c :: p) (c :: t)
  | one {d p t} : d ≠ slash → GM p t → GM (qm :: p) (d :: t)
  | seg {p u t} : p.head? ≠ some star → (∀ x ∈ u, x ≠ slash) → GM p t → GM (star :: p) (u ++ t)
  | run {p u t} : p.head? ≠ some slash → GM p t → GM (star :: star :: p) (u ++ t)
  | dir0 {p t} : GM p t → GM (star :: star :: slash :: p) t
  | dirs {p u t} : GM p t → GM (star :: star :: slash :: p) (u ++ slash :: t)


theorem gmF_sound : ∀ (f : Nat) (p t : Bytes), gmF f p t = true → GM p t := by
  intro f
  induction f with
  | zero => intro p t h; simp [gmF] at h
  | succ f ih =>
    intro p t h
    cases p with
    | nil =>
      simp [gmF] at h; subst h; exact GM.nil
    | cons c p =>
      simp only [gmF] at h
      by_cases hc : c = star
      · subst hc
        simp only [beq_self_eq_true, if_true] at h
        cases p with
        | nil =>
          simp only [] at h
          obtain ⟨u, v, rfl, hu, hk⟩ := (loopSeg_iff _ _).1 h
          exact GM.seg (by simp) hu (ih _ _ hk)
        | cons c2 p2 =>
          simp only [] at h
          by_cases hc2 : c2 = star
          · subst hc2
            simp only [beq_self_eq_true, if_true] at h
            cases p2 with
            | nil =>
              simp only [] at h
              obtain ⟨u, v, rfl, hk⟩ := (loopAny_iff _ _).1 h
              exact GM.run (by simp) (ih _ _ hk)
            | cons c3 p3 =>
              simp only [] at h
              by_cases hc3 : c3 = slash
              · subst hc3
                simp only [beq_self_eq_true, if_true] at h
                rcases (loopDir_iff _ _ _).1 h with ⟨_, hk⟩ | ⟨u, v, rfl, hk⟩
                · exact GM.dir0 (ih _ _ hk)
                · exact GM.dirs (ih _ _ hk)
              · have : (c3 == slash) = false := by simpa using hc3
                simp only [this, Bool.false_eq_true, if_false] at h
                obtain ⟨u, v, rfl, hk⟩ := (loopAny_iff _ _).1 h
                exact GM.run (by simpa using hc3) (ih _ _ hk)
          · have : (c2 == star) = false := by simpa using hc2
            simp only [this, Bool.false_eq_true, if_false] at h
            obtain ⟨u, v, rfl, hu, hk⟩ := (loopSeg_iff _ _).1 h
            exact GM.seg (by simpa using hc2) hu (ih _ _ hk)
      · have h1 : (c == star) = false := by simpa using hc
        simp only [h1, Bool.false_eq_true, if_false] at h
        by_cases hq : c = qm
        · subst hq
          simp only [beq_self_eq_true, if_true] at h
          cases t with
          | nil => simp at h
          | cons d t' =>
            simp only [Bool.and_eq_true] at h
            exact GM.one (by simpa using h.1) (ih _ _ h.2)
        · have h2 : (c == qm) = false := by simpa using hq
          simp only [h2, Bool.false_eq_true, if_false] at h
          cases t with
          | nil => simp at h
          | cons d t' =>
            simp only [Bool.and_eq_true, beq_iff_eq] at h
            obtain ⟨hcd, hk⟩ := h
            subst hcd
            exact GM.lit hc hq (ih _ _ hk)

theorem gmF_complete : ∀ (p t : Bytes), GM p t → ∀ f, p.length < f → gmF f p t = true := by
  intro p t h
  induction h with
  | nil => intro f hf; cases f with | zero => omega | succ f => simp [gmF]
  | @lit c p t hc hq _ ih =>
    intro f hf
    cases f with
    | zero => omega
    | succ f =>
      have h1 : (c == star) = false := by simpa using hc
      have h2 : (c == qm) = false := by simpa using hq
      simp only [gmF, h1, h2, Bool.false_eq_true, if_false]
      simp [ih f (by simp at hf; omega)]
  | @one d p t hd _ ih =>
    intro f hf
    cases f with
    | zero => omega
    | succ f =>
      have h1 : (qm == star) = false := by decide
      simp only [gmF, h1, Bool.false_eq_true, if_false, beq_self_eq_true, if_true]
      simp [ih f (by simp at hf; omega), hd]
  | @seg p u t hp hu _ ih =>
    intro f hf
    cases f with
    | zero => omega
    | succ f =>
      have hk := ih f (by simp at hf; omega)
      have hl : loopSeg (gmF f p) (u ++ t) = true := (loopSeg_iff _ _).2 ⟨u, t, rfl, hu, hk⟩
      cases p with
      | nil => simp only [gmF, beq_self_eq_true, if_true]; exact hl
      | cons c2 p2 =>
        have : (c2 == star) = false := by simpa using hp
        simp only [gmF, beq_self_eq_true, if_true, this, Bool.false_eq_true, if_false]; exact hl
  | @run p u t hp _ ih =>
    intro f hf
    cases f with
    | zero => omega
    | succ f =>
      have hk := ih f (by simp at hf; omega)
      have hl : loopAny (gmF f p) (u ++ t) = true := (loopAny_iff _ _).2 ⟨u, t, rfl, hk⟩
      cases p with
      | nil => simp only [gmF, beq_self_eq_true, if_true]; exact hl
      | cons c3 p3 =>
        have : (c3 == slash) = false := by simpa using hp
        simp only [gmF, beq_self_eq_true, if_true, this, Bool.false_eq_true, if_false]; exact hl
  | @dir0 p t _ ih =>
    intro f hf
    cases f with
    | zero => omega
    | succ f =>
      have hk := ih f (by simp at hf; omega)
      simp only [gmF, beq_self_eq_true, if_true]
      exact (loopDir_iff _ _ _).2 (Or.inl ⟨rfl, hk⟩)
  | @dirs p u t _ ih =>
    intro f hf
    cases f with
    | zero => omega
    | succ f =>
      have hk := ih f (by simp at hf; omega)
      simp only [gmF, beq_self_eq_true, if_true]
      exact (loopDir_iff _ _ _).2 (Or.inr ⟨u, t, rfl, hk⟩)

/-- C16 core: the matcher decides exactly the declarative glob meaning, for every pattern and text. -/
theorem glob_correct (p t : Bytes) : gm p t = true ↔ GM p t :=
  ⟨gmF_sound _ p t, fun h => gmF_complete p t h _ (by simp)⟩

end G
