#!/usr/bin/env python3
# scratch exploration only (round 0): random histories -> real tool -> oracles C08 / C01 / C02 / C03
import os, random, subprocess, sys, shutil, tempfile, json
FR = "/repo/target/debug/filter-repo-rs"
PATHS = [b"a", b"b", b"d/x", b"d/y", b"e/f/g", b"sp ace", b'q"uote', b"back\\slash", b"caf\xc3\xa9", b"hi\xff", b"d2/x", b" lead", b"d/sub/z"]
MODES = [b"100644", b"100644", b"100644", b"100755", b"120000"]

def git(repo, *args, inp=None, check=True):
    r = subprocess.run(["git", "-C", repo] + list(args), input=inp, capture_output=True)
    if check and r.returncode != 0:
        raise RuntimeError("git %s failed: %s" % (args, r.stderr.decode(errors="replace")))
    return r.stdout

def gen(rng, n, weird_refs=False):
    commits = []  # dict(parents, tree{path:(mode,content)}, msg)
    for i in range(n):
        if i == 0 or rng.random() < 0.12:
            parents = []
        else:
            k = rng.choices([1, 2, 3], [0.72, 0.22, 0.06])[0]
            parents = rng.sample(range(i), min(k, i))
        tree = dict(commits[parents[0]]["tree"]) if parents else {}
        nchg = rng.choice([0, 1, 1, 2, 3])
        if not parents and nchg == 0:
            nchg = 1
        for _ in range(nchg):
            p = rng.choice(PATHS)
            if p in tree and rng.random() < 0.35:
                del tree[p]
            else:
                tree[p] = (rng.choice(MODES), b"c%d-%d\n" % (i, rng.randrange(3)))
        msg = rng.choice([b"msg %d\n" % i, b"done\nfrom :1\n", b"no newline %d" % i, b"", b"data 5\nxx\n\ncommit refs/heads/x\n"])
        commits.append(dict(parents=parents, tree=tree, msg=msg))
    children = {i: [] for i in range(n)}
    for i, c in enumerate(commits):
        for p in c["parents"]:
            children[p].append(i)
    refs = {}   # name -> (kind, target)  kind in branch/lw/ann
    tips = [i for i in range(n) if not children[i]]
    bi = 0
    for t in tips:
        kind = rng.choices(["branch", "lw", "ann"], [0.6, 0.2, 0.2])[0]
        if bi == 0: kind = "branch"
        name = {"branch": b"refs/heads/b%d", "lw": b"refs/tags/l%d", "ann": b"refs/tags/n%d"}[kind] % bi
        refs[name] = (kind, t); bi += 1
    for _ in range(rng.randrange(0, 4)):
        kind = rng.choices(["branch", "lw", "ann"], [0.5, 0.25, 0.25])[0]
        name = {"branch": b"refs/heads/b%d", "lw": b"refs/tags/l%d", "ann": b"refs/tags/n%d"}[kind] % bi
        refs[name] = (kind, rng.randrange(n)); bi += 1
    if weird_refs and rng.random() < 0.5:
        refs[b"refs/zzz/w"] = ("branch", rng.randrange(n))
    return commits, refs

def build(repo, commits, refs):
    out = [b"feature done\n"]
    for i, c in enumerate(commits):
        out.append(b"commit refs/heads/tmp%d\nmark :%d\nauthor A U <a@x> %d +0100\ncommitter C O <c@x> %d -0200\ndata %d\n%s" % (i, i + 1, 1700000000 + i, 1700000100 + i, len(c["msg"]), c["msg"]))
        if c["msg"] and not c["msg"].endswith(b"\n"): out.append(b"\n")
        ps = c["parents"]
        if ps:
            out.append(b"from :%d\n" % (ps[0] + 1))
            for p in ps[1:]: out.append(b"merge :%d\n" % (p + 1))
        out.append(b"deleteall\n")
        for p, (m, content) in sorted(c["tree"].items()):
            q = b'"' + p.replace(b"\\", b"\\\\").replace(b'"', b'\\"') + b'"'
            out.append(b"M %s inline %s\ndata %d\n%s\n" % (m, q, len(content), content))
        out.append(b"\n")
    for name, (kind, t) in refs.items():
        if kind == "ann":
            tn = name[len(b"refs/tags/"):]
            out.append(b"tag %s\nfrom :%d\ntagger T G <t@x> 1700009999 +0000\ndata 8\ntag msg\n\n" % (tn, t + 1))
        else:
            out.append(b"reset %s\nfrom :%d\n\n" % (name, t + 1))
    out.append(b"done\n")
    git(repo, "fast-import", "--quiet", "--export-marks=" + os.path.join(repo, ".git", "gen-marks"), inp=b"".join(out))
    for i in range(len(commits)):
        git(repo, "update-ref", "-d", "refs/heads/tmp%d" % i)
    marks = {}
    for line in open(os.path.join(repo, ".git", "gen-marks")):
        m, h = line.split(); marks[int(m[1:]) - 1] = h
    head = sorted(n for n, (k, _) in refs.items() if k == "branch" and n.startswith(b"refs/heads/"))[0]
    git(repo, "symbolic-ref", "HEAD", head.decode())
    git(repo, "reset", "-q", "--hard")
    return marks

def snapshot_refs(repo):
    return git(repo, "for-each-ref", "--format=%(refname) %(objectname) %(objecttype) %(*objectname)")

def lstree(repo, h):
    out = git(repo, "ls-tree", "-r", "-z", h)
    t = {}
    for ent in out.split(b"\0"):
        if not ent: continue
        meta, path = ent.split(b"\t", 1)
        mode, typ, oid = meta.split()
        t[path] = (mode, oid)
    return t

def main():
    seed0 = int(sys.argv[1]); count = int(sys.argv[2]); mode = sys.argv[3]
    fails = 0
    for s in range(seed0, seed0 + count):
        rng = random.Random(s)
        d = tempfile.mkdtemp(prefix="fz")
        try:
            repo = os.path.join(d, "r"); os.mkdir(repo)
            subprocess.run(["git", "init", "-q", repo], check=True)
            git(repo, "config", "user.name", "T"); git(repo, "config", "user.email", "t@e")
            commits, refs = gen(rng, rng.randrange(2, 11), weird_refs=(mode == "weird"))
            marks = build(repo, commits, refs)
            before = snapshot_refs(repo)
            if mode in ("noop", "weird"):
                r = subprocess.run([FR, "--force", "--quiet", "--prune-empty", "never", "--prune-degenerate", "never"], cwd=repo, capture_output=True)
                after = snapshot_refs(repo)
                st = git(repo, "status", "--porcelain")
                if r.returncode != 0 or before != after or st:
                    fails += 1
                    print("FAIL noop seed", s, "rc", r.returncode, r.stderr[-300:])
                    if before != after:
                        print(" before:", before.decode(errors="replace")); print(" after :", after.decode(errors="replace"))
                    if st: print(" status:", st)
            elif mode == "path":
                sel = rng.choice([b"d/", b"a", b"e/", b"sp", b"d", b"caf"])
                ren = rng.choice([None, (b"d/", b"n/"), (b"", b"top/")])
                args = [FR, "--force", "--quiet", "--path", sel.decode()]
                if ren: args += ["--path-rename", ren[0].decode() + ":" + ren[1].decode()]
                r = subprocess.run(args, cwd=repo, capture_output=True)
                if r.returncode != 0:
                    fails += 1; print("FAIL path seed", s, "rc", r.returncode, r.stderr[-300:]); continue
                def F(tree):
                    o = {}
                    for p, v in tree.items():
                        if p.startswith(sel):
                            q = p
                            if ren and q.startswith(ren[0]): q = ren[1] + q[len(ren[0]):]
                            o[q] = v
                    return o
                cmap = {}
                for line in open(os.path.join(repo, ".git", "filter-repo", "commit-map")):
                    a, b = line.split(); cmap[a] = b
                # expected keep / image
                img = {}; kept = {}
                for i, c in enumerate(commits):
                    ps = c["parents"]
                    pimgs = []
                    for p in ps:
                        if img[p] not in pimgs: pimgs.append(img[p])
                    if not ps: k = True
                    else:
                        has = F(c["tree"]) != F(commits[ps[0]]["tree"])
                        k = has or len(pimgs) >= 2
                    kept[i] = k
                    img[i] = i if k else img[ps[0]]
                    c["pimgs"] = pimgs
                bad = []
                for i, c in enumerate(commits):
                    old = marks[i]
                    if old not in cmap: 
                        # not exported? every commit is reachable, so should be there
                        bad.append("commit %d missing from commit-map" % i); continue
                    new = cmap[old]
                    if kept[i] != (new != "0" * 40):
                        bad.append("commit %d kept=%s but map=%s" % (i, kept[i], new)); continue
                    if not kept[i]: continue
                    got = lstree(repo, new)
                    exp = F(c["tree"])
                    gotp = {p: m for p, (m, o) in got.items()}
                    expp = {p: m for p, (m, cont) in exp.items()}
                    if gotp != expp:
                        bad.append("commit %d tree paths differ: got %r exp %r" % (i, sorted(gotp), sorted(expp)))
                    par = git(repo, "rev-list", "--parents", "-n1", new).split()[1:]
                    expar = [cmap[marks[p]].encode() for p in c["pimgs"]]
                    if par != expar:
                        bad.append("commit %d parents differ: got %r exp %r" % (i, par, expar))
                # refs
                after = {}
                for line in snapshot_refs(repo).splitlines():
                    f = line.split(b" ")
                    after[f[0]] = (f[1], f[2], f[3] if len(f) > 3 else b"")
                for name, (kind, t) in refs.items():
                    expid = cmap[marks[img[t]]].encode()
                    if name not in after: bad.append("ref %s lost" % name); continue
                    oid, typ, peeled = after[name]
                    tgt = peeled if typ == b"tag" else oid
                    if tgt != expid: bad.append("ref %s -> %s, expected image %s (target commit %d kept=%s)" % (name, tgt, expid, t, kept[t]))
                    if kind == "ann" and typ != b"tag": bad.append("ref %s no longer a tag object" % name)
                for name in after:
                    if name not in refs: bad.append("ref %s invented" % name)
                st = git(repo, "status", "--porcelain")
                if st: bad.append("status not clean: %r" % st[:80])
                if bad:
                    fails += 1
                    print("FAIL path seed", s, "sel", sel, "ren", ren)
                    for b in bad[:6]: print("   ", b)
        finally:
            shutil.rmtree(d, ignore_errors=True)
    print("done seeds", seed0, "..", seed0 + count - 1, "fails", fails)
main()
